"""C05 — recursive filters converge to the sensed attitude from any initial orientation.

Convergence within a bounded number of samples, the final tolerance and the monotone decrease of the error are properties
of trajectories of a nonlinear recursion: they are NOT decided.  Two necessary conditions are in the shape of the code and
are decided exactly (AVN):
 EQUILIBRIUM   with consistent data the correction term vanishes identically at the truth: Madgwick's objective f (IMU and
               MARG), Mahony's omega_mes (IMU and MARG), the EKF innovation and corrected state, FKF's affine update, the
               complementary blend, OLEQ/ROLEQ's fixed direction (shared with C04);
 FEEDBACK      the sign / structure of the correction where it is a closed form:
               Madgwick: J == d f / d q entry by entry (formal Jacobian of the extracted objective) and the step is
               qDot -= gain * normalised(J^T f), i.e. descent along the gradient of 1/2 |f|^2;
               Mahony: along qdot = 1/2 q (x) (0, k_P omega_mes) the Lyapunov function V = 1 - a.v_a(q) has
               dV/dt == -k_P |a x v_a|^2 (descent), and the bias integrator uses -k_I omega_mes;
               EKF: q = q_t + K (z - h(q_t)), K = P_t H^T S^-1, S = H P_t H^T + R (value numbers) and
               dhdq('normal') == d(E_hom(q)^T ref)/dq for the homogeneous representative of the extracted matrix.
A flipped sign in any of these makes the truth a repeller or moves the equilibrium; that is what the rules detect.
Added after the seeding rounds (DESIGN.md 6.6-6.8):
 AQUA  equilibrium at dt = 0 (both conventions), SHORT-ARC (interval: delta quaternions have non-negative scalar part), GAIN-INPUT (adaptive gain receives the raw sample);
 FEEDBACK.guard / FEEDBACK.step  the gradient step is decided by interpretation with opaque norms and is guarded by norm(f) != 0.
Added after seeding rounds 5 and 6 and refactoring round 4 (DESIGN.md 6.10-6.12):
 AM-TILT  roll and pitch of am_estimation satisfy the defining identities of the tilt angles, both arms.
"""
import ast
LINT_EXTRA_FILES = ("ahrs/common/orientation.py", "ahrs/utils/core.py")      # acc2q / am2q / ecompass helpers the filters start from; the shared input validators
import numpy as np
from sa import poly as P
from sa.facts import Facts
from sa.symeval import Interp, Env, sym_vec, sym_mat, to_obj, unit_syms, unit_vec
from sa.lib import eq, all_of, I, E_ref, hamilton_ref

F = "ahrs/filters/"


def find_assign(f, name):
    for s in ast.walk(f.node):
        if isinstance(s, ast.Assign) and isinstance(s.targets[0], ast.Name) and s.targets[0].id == name:
            return s
    return None


def _jtf(node):
    for n in ast.walk(node):
        if isinstance(n, ast.BinOp) and isinstance(n.op, ast.MatMult) and isinstance(n.left, ast.Attribute) and n.left.attr == "T" \
                and isinstance(n.left.value, ast.Name) and isinstance(n.right, ast.Name):
            return n.left.value.id, n.right.id
    return None


def _grad_names(f, prog=None):
    """names (J, f) from the statement  gradient = J.T @ f  -- in the method itself, or in a helper it calls with (J, f) as arguments"""
    got = _jtf(f.node)
    if got or prog is None:
        return got
    for c in ast.walk(f.node):
        if not isinstance(c, ast.Call):
            continue
        g = None
        if isinstance(c.func, ast.Name):
            r = f.module.resolve_name(c.func.id)
            g = r if r is not None and hasattr(r, "node") and isinstance(r.node, ast.FunctionDef) else None
            params = [a.arg for a in g.node.args.args] if g else []
        elif isinstance(c.func, ast.Attribute) and isinstance(c.func.value, ast.Name) and c.func.value.id == "self" and f.cls is not None:
            g = f.cls.methods.get(c.func.attr)
            params = [a.arg for a in g.node.args.args][1:] if g else []
        if g is None:
            continue
        inner = _jtf(g.node)
        if inner and inner[0] in params and inner[1] in params:
            actual = {}
            for p_, a_ in zip(params, c.args):
                actual[p_] = a_
            for k_ in c.keywords:
                actual[k_.arg] = k_.value
            A, B = actual.get(inner[0]), actual.get(inner[1])
            if isinstance(A, ast.Name) and isinstance(B, ast.Name):
                return A.id, B.id
    return None


def _field_names(f):
    """names of the two locals holding the reference field components: X = norm([h[i], h[j]]) and Z = h[k]"""
    bx = bz = None
    for n in ast.walk(f.node):
        if isinstance(n, ast.Assign) and isinstance(n.targets[0], ast.Name) and isinstance(n.value, ast.Call) and ast.unparse(n.value.func).endswith("norm") \
                and n.value.args and isinstance(n.value.args[0], (ast.List, ast.Tuple)) and len(n.value.args[0].elts) == 2:
            bx = n.targets[0].id
            hname = ast.unparse(n.value.args[0].elts[0].value) if isinstance(n.value.args[0].elts[0], ast.Subscript) else None
            for m in ast.walk(f.node):
                if isinstance(m, ast.Assign) and isinstance(m.targets[0], ast.Name) and isinstance(m.value, ast.Subscript) and ast.unparse(m.value.value) == hname \
                        and m.targets[0].id != bx:
                    bz = m.targets[0].id
    return bx, bz


def madgwick(chk, prog):
    for meth, marg in (("updateIMU", False), ("updateMARG", True)):
        f = prog.func(F + "madgwick.py::Madgwick." + meth)
        chk.touch(f)
        kw = dict(module=f.module.rel, function=f.qname, line=f.node.lineno)
        names = _grad_names(f, prog)
        owner = f
        if names is None and f.cls is not None:
            # the correction step may live in a private method that builds J and f itself
            for g_ in f.cls.methods.values():
                if g_.name.startswith("_") and _jtf(g_.node):
                    names, owner = _jtf(g_.node), g_
                    break
        if names is None:
            chk.error("Madgwick.%s: the gradient statement `J.T @ f` was not found" % meth)
            continue
        Jn, fn_ = names
        qs = sym_vec("jq", 4, "wxyz")
        a, m, w = sym_vec("ja", 3), sym_vec("jm", 3), sym_vec("jw", 3)
        bx, bz, dt = P.sym("bx"), P.sym("bz"), P.sym("dt")
        known = [qs, a, m]

        def run_free():
            """interpret the method with free symbols; norms of the inputs are 1 (they are unit by hypothesis), b treated as constants"""
            def norm1(it, args, kwargs):
                from sa.symeval import unwrap, vec_norm, arr_same
                x = to_obj(unwrap(args[0]))
                for k in known:
                    if getattr(x, "shape", None) == k.shape and arr_same(x, k):
                        return P.ONE
                return vec_norm(x, axis=kwargs.get("axis"))
            ov = {}
            if marg:
                nx, nz = _field_names(owner)
                if nx is None or nz is None:
                    raise AssertionError("field component locals not found")
                ov = {(owner.ref, nx): bx, (owner.ref, nz): bz}
            it = Interp(prog, oracle=lambda c, i: True if c.op in (">",) else None, intercepts={"np.linalg.norm": norm1}, config={"override_locals": ov})
            obj = it.make_obj(F + "madgwick.py::Madgwick", Dt=dt, gain=P.sym("gain"))
            args = [qs.copy(), w, a] + ([m] if marg else [])
            it.run(f, args, {"dt": dt}, self_obj=obj)
            env = it.envs_by_func[owner.ref].vars
            return to_obj(env[fn_]), to_obj(env[Jn])

        def jac():
            fv, J = run_free()
            outs = []
            for i in range(len(fv)):
                for j, s_ in enumerate(("jqw", "jqx", "jqy", "jqz")):
                    outs.append(eq(J[i, j], fv[i].deriv(s_), "J[%d,%d]" % (i, j)))
            return all_of(*outs)
        chk.ob("FEEDBACK.jacobian", f.ref, "J[i][j] == d f_i / d q_j for the objective f the method evaluates", jac, construct="Jacobian of the objective", **kw)

        def equilibrium():
            q = unit_syms("cq")
            E = E_ref(q)
            bu = unit_vec("jb", 2)
            P.declare_positive(bu[0])
            ref = np.array([bu[0], P.ZERO, bu[1]], dtype=object)
            it = Interp(prog, oracle=lambda c, i: None)
            obj = it.make_obj(F + "madgwick.py::Madgwick", Dt=dt, gain=P.sym("gain"))
            args = [q.copy(), w, E.T @ np.array([P.ZERO, P.ZERO, P.ONE], dtype=object)] + ([E.T @ ref] if marg else [])
            it.run(f, args, {"dt": dt}, self_obj=obj)
            fv = to_obj(it.envs_by_func[owner.ref].vars[fn_])
            return eq(fv, np.array([P.ZERO] * len(fv), dtype=object), "f at the truth")
        chk.ob("EQUILIBRIUM", f.ref, "objective f == 0 for a = E(q)^T e3%s" % (", m = E(q)^T (bx, 0, bz)" if marg else ""), equilibrium, construct="objective vanishes at the truth", **kw)
        def step():
            """q_new == (q + (q (x) [0,w] / 2 - gain * J^T f / |J^T f|) dt) / |.|  with the two norms kept as opaque positive symbols"""
            from sa.symeval import unwrap, vec_norm, arr_same
            seen = []

            def norm_sym(it, args, kwargs):
                x = to_obj(unwrap(args[0]))
                for k in known:
                    if getattr(x, "shape", None) == k.shape and arr_same(x, k):
                        return P.ONE
                for y, sy in seen:
                    if getattr(x, "shape", None) == y.shape and arr_same(x, y):
                        return sy
                sy = P.sym("nrm%d" % len(seen))
                P.declare_positive(sy)
                seen.append((x.copy() if hasattr(x, "copy") else x, sy))
                return sy
            ov = {}
            if marg:
                nx, nz = _field_names(owner)
                if nx is None or nz is None:
                    return (None, "field component locals not found")
                ov = {(owner.ref, nx): bx, (owner.ref, nz): bz}
            def orc(c, i):
                # the opaque norms are those of non-null, finite samples: > 0 is true, <= 0 / == 0 / isnan are false
                if c.op in (">", ">="):
                    return True
                if c.op in ("<=", "<", "=="):
                    try:
                        names = {P.atom(a_).name for a_ in (c.lhs - c.rhs).atoms()}
                    except Exception:
                        names = set()
                    if names and all(n_.startswith("nrm") for n_ in names):
                        return False
                return None
            it = Interp(prog, oracle=orc, intercepts={"np.linalg.norm": norm_sym}, config={"override_locals": ov})
            obj = it.make_obj(F + "madgwick.py::Madgwick", Dt=dt, gain=P.sym("gain"))
            args = [qs.copy(), w, a] + ([m] if marg else [])
            out = to_obj(it.run(f, args, {"dt": dt}, self_obj=obj))
            env = it.envs_by_func[owner.ref].vars
            fv, J = to_obj(env[fn_]), to_obj(env[Jn])
            g = J.T @ fv
            ng = nq = None
            for y, sy in seen:
                if y.shape == g.shape and arr_same(y, g):
                    ng = sy
            if ng is None:
                return (False, "the gradient J^T f is never normalised (no norm of it is taken)", None)
            qdot = hamilton_ref(qs, np.concatenate([[P.ZERO], w])) / 2 - P.sym("gain") * g / ng
            exp = qs + qdot * dt
            for y, sy in seen:
                if y.shape == exp.shape and arr_same(y, exp):
                    nq = sy
            if nq is None:
                return (False, "q + qDot*dt with qDot = q(x)[0,w]/2 - gain*J^T f/|J^T f| is not what the method normalises and returns", None)
            return eq(out, exp / nq, "q_new")
        chk.ob("FEEDBACK.step", f.ref, "q_new = normalised(q + (q (x) [0,w]/2 - gain * J^T f/|J^T f|) dt): descent along the normalised gradient", step,
               construct="gradient step", **kw)


def madgwick_guard(chk, prog):
    """FEEDBACK.guard (must-facts): the normalised gradient J^T f / |J^T f| is 0/0 exactly where the objective f vanishes (the estimate already matches the
    sample).  At the point where J^T f is formed -- in the method, in a private method, or in a helper it is handed to -- the fact `norm(f) != 0` must hold
    (an enclosing `if norm(f) > 0`, an early `if not norm(f) > 0: return` ...).  A test on another vector, or none, lets a resting, aligned sensor produce NaN."""
    from sa.facts import norm_of
    for meth in ("updateIMU", "updateMARG"):
        f = prog.func(F + "madgwick.py::Madgwick." + meth)
        cases = []          # (function to analyse, node at which the fact must hold, expression of the objective there)
        jt = _jtf(f.node)
        if jt:
            cases.append((f, None, jt[1]))
        else:
            for c in ast.walk(f.node):
                if not isinstance(c, ast.Call):
                    continue
                g = None
                if isinstance(c.func, ast.Name):
                    r = f.module.resolve_name(c.func.id)
                    g = r if r is not None and hasattr(r, "node") and isinstance(r.node, ast.FunctionDef) else None
                    params = [a_.arg for a_ in g.node.args.args] if g else []
                elif isinstance(c.func, ast.Attribute) and isinstance(c.func.value, ast.Name) and c.func.value.id == "self" and f.cls is not None:
                    g = f.cls.methods.get(c.func.attr)
                    params = [a_.arg for a_ in g.node.args.args][1:] if g else []
                if g is None or not _jtf(g.node):
                    continue
                inner = _jtf(g.node)
                if inner[1] in params:          # the objective is an argument: the guard may be at the call site ...
                    bound = dict(zip(params, c.args))
                    bound.update({k.arg: k.value for k in c.keywords})
                    if inner[1] in bound:
                        cases.append((f, c, bound[inner[1]]))
                cases.append((g, None, inner[1]))      # ... or inside the helper
        if not cases:
            chk.error("FEEDBACK.guard: %s: the statement forming J^T f was not located" % f.ref)
            continue
        verdicts = []
        for fn, at_node, fexpr in cases:
            hits = []

            class G(Facts):
                def expr(self2, node, st):
                    for x in ast.walk(node):
                        is_t = (at_node is not None and x is at_node) or (at_node is None and isinstance(x, ast.BinOp) and isinstance(x.op, ast.MatMult)
                                                                         and isinstance(x.left, ast.Attribute) and x.left.attr == "T" and ast.unparse(x.right) == fexpr)
                        if is_t:
                            fe = fexpr if isinstance(fexpr, ast.AST) else ast.parse(fexpr, mode="eval").body
                            hits.append(self2.has(st, "NZ", norm_of(self2.vn(fe, st))))
                    return super().expr(node, st)
            G(fn, prog).analyse()
            if hits:
                verdicts.append(all(hits))
        site = "%s::norm(objective) guard" % f.ref
        if verdicts and any(verdicts):
            chk.record("FEEDBACK.guard", site, "J^T f is formed only where the objective is known non-zero")
        elif not verdicts:
            chk.error("FEEDBACK.guard: %s: the statement forming J^T f was not reached by the analysis" % f.ref)
        else:
            why = "J^T f is formed (and then normalised) at a point where `norm(f) != 0` is not established: where the objective vanishes the step is 0/0 = NaN"
            chk.record("FEEDBACK.guard", site, "gradient normalised only where the objective is non-zero", verdict="VIOLATION", detail=why)
            chk.finding("FEEDBACK.guard", f.module.rel, f.qname, "guard of the gradient normalisation", why, line=f.node.lineno)


def mahony(chk, prog):
    """all Mahony clauses are read off observable effects (returned quaternion, carried bias), not off local names"""
    from sa.lib import normalized
    for meth, marg in (("updateIMU", False), ("updateMARG", True)):
        f = prog.func(F + "mahony.py::Mahony." + meth)
        chk.touch(f)
        kw = dict(module=f.module.rel, function=f.qname, line=f.node.lineno)
        w = sym_vec("mw", 3)
        kP, kI, dt = P.sym("kP"), P.sym("kI"), P.sym("dt")

        def run(q, acc, mag, b0):
            it = Interp(prog, oracle=lambda c, i: True if c.op == ">" else None)
            obj = it.make_obj(F + "mahony.py::Mahony", Dt=dt, k_P=kP, k_I=kI, b=b0.copy())
            args = [q, w, acc] + ([mag] if marg else [])
            out = it.run(f, args, {"dt": dt}, self_obj=obj)
            return to_obj(out), to_obj(obj.attrs["b"])

        def equilibrium():
            q = unit_syms("cq")
            E = E_ref(q)
            bu = unit_vec("mb", 2)
            P.declare_positive(bu[0])
            b0 = sym_vec("mb0", 3)
            acc = E.T @ np.array([P.ZERO, P.ZERO, P.ONE], dtype=object)
            mag = E.T @ np.array([P.ZERO, bu[0], bu[1]], dtype=object)
            out, b_new = run(q, acc, mag, b0)
            pure = normalized(q + hamilton_ref(q, np.concatenate([[P.ZERO], w - b0])) * dt / 2)
            return all_of(eq(b_new, b0, "bias unchanged at the truth"), eq(out, pure, "no attitude correction at the truth"))
        chk.ob("EQUILIBRIUM", f.ref, "for consistent data the bias is unchanged and the step is the pure (bias-compensated) gyro step", equilibrium, construct="correction vanishes at the truth", **kw)
        if not marg:
            def lyapunov():
                qf = sym_vec("lq", 4, "wxyz")
                a = unit_vec("la")
                it = Interp(prog)
                from sa.lib import quat_obj, QUAT
                R = to_obj(it.run(prog.func(QUAT + "::Quaternion.to_DCM"), [], self_obj=quat_obj(it, qf)))
                v_a = R.T @ np.array([P.ZERO, P.ZERO, P.ONE], dtype=object)
                qu = unit_syms("lu")
                sub = {"lqw": qu[0], "lqx": qu[1], "lqy": qu[2], "lqz": qu[3]}
                # the correction the code applies, read off the bias it integrates: b_new = b - k_I * omega_mes * dt
                b0 = np.array([P.ZERO] * 3, dtype=object)
                out, b_new = run(qu, a, None, b0)
                om_code = -(b_new - b0) / (kI * dt)
                # Lyapunov derivative along qdot = 1/2 q (x) (0, k_P omega_mes) with that omega_mes
                om_free_sub = om_code
                Vdot = P.ZERO
                qdot = hamilton_ref(qu, np.concatenate([[P.ZERO], kP * om_code])) / 2
                for k, s_ in enumerate(("lqw", "lqx", "lqy", "lqz")):
                    for i in range(3):
                        Vdot = Vdot - a[i] * v_a[i].deriv(s_).subs(sub) * qdot[k]
                v_a_u = np.array([x.subs(sub) for x in v_a], dtype=object)
                cr = it.np.cross(a, v_a_u)
                step = normalized(qu + hamilton_ref(qu, np.concatenate([[P.ZERO], w - b_new + kP * om_code])) * dt / 2)
                return all_of(eq(Vdot, -kP * (cr @ cr), "dV/dt"), eq(out, step, "step integrates gyr - b + k_P omega_mes"))
            chk.ob("FEEDBACK.lyapunov", f.ref, "with omega_mes read off the bias integrator (b_new = b - k_I omega_mes dt): dV/dt == -k_P |a x v_a|^2 for V = 1 - a.v_a(q), "
                   "and the step integrates gyr - b_new + k_P omega_mes", lyapunov, construct="Lyapunov descent / PI structure", **kw)
        else:
            def pi_marg():
                qu = unit_syms("pq")
                a_, m_ = unit_vec("pa"), unit_vec("pm")
                b0 = sym_vec("pb", 3)
                out, b_new = run(qu, a_, m_, b0)
                om = -(b_new - b0) / (kI * dt)
                step = normalized(qu + hamilton_ref(qu, np.concatenate([[P.ZERO], w - b_new + kP * om])) * dt / 2)
                return eq(out, step, "step integrates gyr - b + k_P omega_mes with the omega_mes of the bias integrator")
            chk.ob("FEEDBACK.pi", f.ref, "the proportional term uses the same omega_mes as the bias integrator, with gain k_P and the documented signs", pi_marg, construct="PI correction", **kw)


def ekf(chk, prog):
    fu = prog.func(F + "ekf.py::EKF.update")
    fh = prog.func(F + "ekf.py::EKF.h")
    fd = prog.func(F + "ekf.py::EKF.dhdq")
    for f in (fu, fh, fd):
        chk.touch(f)
    aref, mref = sym_vec("ar", 3), sym_vec("mr", 3)
    kw = dict(module=fu.module.rel, function="EKF.dhdq", line=fd.node.lineno)

    def jac():
        qf = sym_vec("eq", 4, "wxyz")
        it = Interp(prog)
        obj = it.make_obj(F + "ekf.py::EKF", a_ref=aref, m_ref=mref, mag=None)
        H = to_obj(it.run(fd, [qf], {"mode": "normal", "with_mag": True}, self_obj=obj))
        w, x, y, z = qf
        s = w * w + x * x + y * y + z * z
        Ehom = E_ref(qf) * s
        hh = np.concatenate([Ehom.T @ aref, Ehom.T @ mref])
        outs = []
        for i in range(6):
            for j, s_ in enumerate(("eqw", "eqx", "eqy", "eqz")):
                outs.append(eq(H[i, j], hh[i].deriv(s_), "H[%d,%d]" % (i, j)))
        return all_of(*outs)
    chk.ob("FEEDBACK.jacobian", fd.ref, "dhdq('normal') == d(E_hom(q)^T [a_ref; m_ref]) / dq", jac, construct="measurement Jacobian", **kw)

    def jac_acc():
        # the accelerometer-only architecture (with_mag=False) linearises the same measurement model restricted to gravity, for ANY reference (ENU's +z, NED's -z)
        qf = sym_vec("eq", 4, "wxyz")
        it = Interp(prog)
        obj = it.make_obj(F + "ekf.py::EKF", a_ref=aref, m_ref=mref, mag=None)
        H = to_obj(it.run(fd, [qf], {"mode": "normal", "with_mag": False}, self_obj=obj))
        w, x, y, z = qf
        s = w * w + x * x + y * y + z * z
        Ehom = E_ref(qf) * s
        hh = Ehom.T @ aref
        if H.shape != (3, 4):
            return (False, "dhdq(with_mag=False) has shape %s, expected (3, 4)" % (H.shape,))
        outs = []
        for i in range(3):
            for j, s_ in enumerate(("eqw", "eqx", "eqy", "eqz")):
                outs.append(eq(H[i, j], hh[i].deriv(s_), "H[%d,%d]" % (i, j)))
        return all_of(*outs)
    chk.ob("FEEDBACK.jacobian", fd.ref + "::with_mag=False", "dhdq('normal', with_mag=False) == d(E_hom(q)^T a_ref) / dq", jac_acc, construct="measurement Jacobian (IMU)", **kw)

    def model():
        q = unit_syms("cq")
        it = Interp(prog)
        obj = it.make_obj(F + "ekf.py::EKF", a_ref=aref, m_ref=mref, mag=None)
        y = to_obj(it.run(fh, [q, True], self_obj=obj))
        E = E_ref(q)
        return eq(y, np.concatenate([E.T @ aref, E.T @ mref]), "h(q)")
    chk.ob("EQUILIBRIUM", fh.ref, "h(q) == [E(q)^T a_ref; E(q)^T m_ref] (so the innovation vanishes for consistent data)", model, module=fu.module.rel, function="EKF.h",
           construct="measurement model", line=fh.node.lineno)
    # the correction step against the textbook EKF, with the four model functions and the matrix inverse replaced by
    # fresh symbols (so the comparison is independent of local names and statement order)
    def kalman():
        from sa.symeval import unit_vec as uvec, unwrap, arr_same, vec_norm
        q = unit_syms("kq")
        gyr, acc = sym_vec("kg", 3), uvec("ka")
        dt = P.sym("dt")
        qt, yv, Hm = sym_vec("kqt", 4), sym_vec("ky", 3), sym_mat("kH", 3, 4)
        Sinv = sym_mat("kSi", 3, 3)
        Nsym = P.sym("kNorm")
        skew = prog.func("ahrs/common/mathfuncs.py::skew")
        sk = to_obj(Interp(prog).run(skew, [q[1:]]))
        W = np.vstack([[-q[1], -q[2], -q[3]], q[0] * I(3) + sk]) * dt / 2
        outs = []
        for stage in ("state", "covariance"):
            # stage "state": full symbolic F, P, g_noise (checks P_t, S and the corrected state);
            # stage "covariance": F = I, g_noise = 0 so that P_t = P and (I - K H) P_t stays small
            Fm = sym_mat("kF", 4, 4) if stage == "state" else I(4)
            Pm = sym_mat("kP", 4, 4)
            noises = [P.sym("ng") if stage == "state" else P.ZERO, P.sym("na"), P.sym("nm")]
            calls, captured = {}, {}

            def rec(name, value):
                def h_(it, a_, k_):
                    calls[name] = (a_, k_)
                    return value.copy()
                return h_

            def inv_(it, a_, k_):
                captured["S"] = to_obj(a_[0])
                return Sinv.copy()

            def norm_(it, a_, k_):
                x = to_obj(unwrap(a_[0]))
                for known in (q, acc):
                    if getattr(x, "shape", None) == known.shape and arr_same(x, known):
                        return P.ONE
                return Nsym          # the final normalisation: an opaque positive scale
            E = F + "ekf.py::EKF."
            it = Interp(prog, oracle=lambda c, i: True if c.op == "isclose" else None,
                        intercepts={E + "f": rec("f", qt), E + "dfdq": rec("dfdq", Fm), E + "h": rec("h", yv), E + "dhdq": rec("dhdq", Hm),
                                    "np.linalg.inv": inv_, "np.linalg.norm": norm_})
            obj = it.make_obj(F + "ekf.py::EKF", Dt=dt, P=Pm.copy(), noises=noises, g_noise=noises[0], a_noise=noises[1], m_noise=noises[2], mag=None,
                              a_ref=sym_vec("kar", 3), m_ref=sym_vec("kmr", 3), R=None)
            out = to_obj(it.run(fu, [q.copy(), gyr, acc], {"dt": dt}, self_obj=obj))
            if not all(k in calls for k in ("f", "dfdq", "h", "dhdq")) or "S" not in captured:
                return (None, "update() does not call f, dfdq, h, dhdq and np.linalg.inv")
            Pt = Fm @ Pm @ Fm.T + noises[0] * (W @ W.T)
            R = np.empty((3, 3), dtype=object)
            R.fill(P.ZERO)
            for i_ in range(3):
                R[i_, i_] = noises[1]
            S = Hm @ Pt @ Hm.T + R
            K = Pt @ Hm.T @ Sinv
            first = lambda c_: to_obj(c_[0][1] if len(c_[0]) > 1 else c_[0][0])
            if stage == "state":
                outs += [eq(first(calls["h"]), qt, "h is evaluated at the predicted state"), eq(first(calls["dhdq"]), qt, "dhdq is evaluated at the predicted state"),
                         eq(captured["S"], S, "innovation covariance S"), eq(out, (qt + K @ (acc - yv)) / Nsym, "corrected state")]
            else:
                outs += [eq(obj.attrs["P"], (I(4) - K @ Hm) @ Pt, "updated covariance")]
        return all_of(*outs)
    chk.ob("FEEDBACK.kalman", fu.ref, "with f, dfdq, h, dhdq and the inverse as fresh symbols: S == H P_t H^T + R, q == normalise(q_t + P_t H^T S^-1 (z - h(q_t))), "
           "P == (I - K H) P_t, P_t == F P F^T + g_noise W W^T", kalman, module=fu.module.rel, function="EKF.update", construct="Kalman correction", line=fu.node.lineno)


def am_tilt(chk, prog):
    """AM-TILT: the accelerometer angles the complementary filter blends towards are the roll and pitch of the measured gravity direction, exactly:
    sin(roll) a_z == cos(roll) a_y with cos(roll) a_z + sin(roll) a_y == sqrt(a_y^2 + a_z^2), and sin(pitch) sqrt(a_y^2 + a_z^2) == -cos(pitch) a_x
    (1-D sample and every row of the 2-D arm).  A "stabilised" approximation of either angle makes the filter settle on a biased attitude."""
    f = prog.func(F + "complementary.py::Complementary.am_estimation")
    chk.touch(f)
    kw = dict(module=f.module.rel, function=f.qname, line=f.node.lineno)

    def ident(ex, ey, a, tag):
        h = P.sqrt(a[1] * a[1] + a[2] * a[2])
        return all_of(eq(P.sin(ex) * a[2] - P.cos(ex) * a[1], P.ZERO, "roll direction [%s]" % tag), eq(P.cos(ex) * a[2] + P.sin(ex) * a[1], h, "roll branch [%s]" % tag),
                      eq(P.sin(ey) * h + P.cos(ey) * a[0], P.ZERO, "pitch direction [%s]" % tag))

    def one():
        it = Interp(prog)
        a = sym_vec("ca", 3)
        r = to_obj(it.run(f, [a.copy()], self_obj=it.make_obj(F + "complementary.py::Complementary")))
        return ident(r[0], r[1], a, "1-D")

    def many():
        it = Interp(prog)
        A = np.vstack([sym_vec("cb", 3), sym_vec("cc", 3)])
        r = to_obj(it.run(f, [A.copy()], self_obj=it.make_obj(F + "complementary.py::Complementary")))
        return all_of(*[ident(r[i][0], r[i][1], A[i], "row %d" % i) for i in range(2)])
    chk.ob("AM-TILT", f.ref + "::1-D", "roll and pitch of am_estimation(a) are the tilt angles of a", one, construct="tilt angles [1-D]", **kw)
    chk.ob("AM-TILT", f.ref + "::2-D", "roll and pitch of every row of am_estimation(A) are the tilt angles of that row", many, construct="tilt angles [2-D]", **kw)


def reference_unit(chk, prog):
    """REF-UNIT: the EKF compares a NORMALISED magnetometer sample with h(q), the magnetic reference rotated into the sensor frame; the reference therefore has to be
    a unit vector whatever way it was given.  At every exit of EKF._set_reference_frames the value of self.m_ref is X / norm(X) (value numbers; join members are
    examined one by one); a member that is the caller's vector, merely copied, is a finding; anything else that cannot be shown unit gets no verdict."""
    from sa.facts import PHI
    f = prog.func(F + "ekf.py::EKF._set_reference_frames")
    chk.touch(f)
    fa = Facts(f, prog).analyse()
    import re as _re

    def members(v, depth=0):
        if v in PHI and depth < 6:
            out = []
            for m_ in PHI[v]:
                out += members(m_, depth + 1)
            return out
        return [v]

    def strip(v):
        while True:
            m_ = _re.match(r"np\.(?:copy|array|asarray|ascontiguousarray)\((.*)\)$", v or "")
            if not m_:
                return v
            v = m_.group(1)
    n = 0
    for stmt, st in fa.returns:
        if st is None:
            continue
        n += 1
        v = st.get("s:m_ref")
        site = "%s::exit@%s" % (f.ref, getattr(stmt, "lineno", "end"))
        if v is None:
            chk.error("REF-UNIT: self.m_ref is not assigned on an exit path of EKF._set_reference_frames (cannot decide)")
            continue
        raw, unknown = [], []
        for m_ in members(v):
            if ("UNIT", m_) in st["F"]:
                continue
            mm = _re.match(r"Div\((.*),norm\((.*)\)\)$", m_)
            if mm and mm.group(1) == mm.group(2):
                continue
            (raw if (strip(m_) or "").startswith("P:") else unknown).append(m_)
        if raw:
            why = "on this exit self.m_ref can be `%s`: the caller's vector, copied but not divided by its norm; h() then predicts a field of that magnitude against a unit measurement" % raw[0][:60]
            chk.record("REF-UNIT", site, "self.m_ref is a unit vector at exit", verdict="VIOLATION", detail=why)
            chk.finding("REF-UNIT", f.module.rel, f.qname, "magnetic reference not normalised", why, line=f.node.lineno)
        elif unknown:
            chk.error("REF-UNIT: self.m_ref can be `%s` at an exit of EKF._set_reference_frames; its unit norm could not be established (cannot decide)" % unknown[0][:60])
        else:
            chk.record("REF-UNIT", site, "self.m_ref is X / norm(X) on every path to this exit")
    if n == 0:
        chk.error("REF-UNIT: EKF._set_reference_frames has no normal exit")


def blends(chk, prog):
    # complementary filter: weights sum to one
    f = prog.func(F + "complementary.py::Complementary._compute_all")
    chk.touch(f)
    n = 0
    for loop in ast.walk(f.node):
        if isinstance(loop, ast.For):
            body_locals = []          # single-name assignments of the loop body met before the store: evaluated in order for the store that follows
            for s in loop.body:
                if isinstance(s, ast.Assign) and len(s.targets) == 1 and isinstance(s.targets[0], ast.Name):
                    body_locals.append(s)
                    continue
                if isinstance(s, ast.Assign):
                    n += 1
                    it = Interp(prog)
                    T, g, gain, Dt = P.sym("T"), P.sym("gyr"), P.sym("gain"), P.sym("Dt")

                    class _A:
                        _avn_native = True

                        def __getitem__(self, k):
                            return self.v

                        def __init__(self, v):
                            self.v = v
                    env = Env(f.module, f)
                    obj = it.make_obj(F + "complementary.py::Complementary", gyr=_A(P.ZERO), Dt=Dt, gain=gain)
                    env.vars.update({"self": obj, "W": _A(T), "W2": _A(T)})
                    for nm_ in ast.walk(loop.target):          # the loop index, whatever it is called
                        if isinstance(nm_, ast.Name):
                            env.vars[nm_.id] = 1
                    # locals hoisted out of the loop (weights ...) are evaluated first, if they can be
                    for pre in sorted((x for x in ast.walk(f.node) if isinstance(x, ast.Assign) and x.lineno < loop.lineno), key=lambda x: x.lineno):
                        if isinstance(pre.targets[0], ast.Name) and pre.targets[0].id not in ("W", "W2"):
                            try:
                                env.vars[pre.targets[0].id] = it.eval(pre.value, env)
                            except Exception:
                                pass
                    # every other array the blend indexes (the measured angles under another name) holds the truth as well at the equilibrium
                    for x_ in ast.walk(loop):
                        if isinstance(x_, ast.Subscript) and isinstance(x_.value, ast.Name) and x_.value.id not in env.vars:
                            env.vars[x_.value.id] = _A(T)
                    site = f.ref + "::" + ast.unparse(s.targets[0])

                    def law(s=s, env=env, it=it, pre_=list(body_locals)):
                        for b_ in pre_:
                            env.vars[b_.targets[0].id] = it.eval(b_.value, env)
                        return eq(it.eval(s.value, env), T, "blend at the truth")
                    chk.ob("EQUILIBRIUM", site, "blend of (previous + gyr dt) and the measured angles returns the truth when both equal it and the rate is zero (weights sum to 1)", law,
                           module=f.module.rel, function=f.qname, construct="complementary blend", line=s.lineno)
    if n < 1:
        chk.error("Complementary._compute_all: blend statements not found")
    # FKF: affine update with weights summing to one
    fk = prog.func(F + "fkf.py::FKF.kalman_update")
    chk.touch(fk)

    def fkf():
        q1 = unit_syms("cq")
        Phi = I(4)
        G = sym_mat("Ginv", 4, 4)
        it = Interp(prog, intercepts={"np.linalg.inv": lambda i, a, k: G})
        obj = it.make_obj(F + "fkf.py::FKF")
        out = it.run(fk, [q1, q1.copy(), sym_mat("Pk", 4, 4), Phi, sym_mat("Se", 4, 4), sym_mat("Sv", 4, 4)], self_obj=obj)
        return eq(to_obj(out[0]), q1, "kalman_update at the truth")
    chk.ob("EQUILIBRIUM", fk.ref, "q_ + Gk (q_am - q_) == q_ when the measurement quaternion equals the prediction", fkf, module=fk.module.rel, function=fk.qname,
           construct="affine Kalman update", line=fk.node.lineno)


def aqua_equilibrium(chk, prog):
    """EQUILIBRIUM for AQUA (interpretation, dt = 0 so that the predicted attitude is the given one): with the accelerometer (and magnetometer) equal to
    the images of the vertical (and of a field in the world x-z plane with positive north component) under the attitude -- in whichever of the two
    directions the code's own convention uses -- both delta quaternions are the identity and the filter returns the attitude unchanged"""
    q = unit_syms("aq")
    E = E_ref(q)
    w = sym_vec("aw", 3)
    bu = unit_vec("ab", 2)
    P.declare_positive(bu[0])
    e3 = np.array([P.ZERO, P.ZERO, P.ONE], dtype=object)
    mw = np.array([bu[0], P.ZERO, bu[1]], dtype=object)
    for meth, marg in (("updateIMU", False), ("updateMARG", True)):
        f = prog.func(F + "aqua.py::AQUA." + meth)
        chk.touch(f)

        def law(f=f, marg=marg):
            outs = []
            for name, M in (("E(q)^T", E.T), ("E(q)", E)):
                # a delta quaternion with scalar part exactly 1 is above any admissible threshold (< 1): the LERP arm of slerp_I
                it = Interp(prog, oracle=lambda c, i: True if (c.op in (">", ">=") and hasattr(c.lhs, "const") and c.lhs.const() == 1) else None)
                obj = it.make_obj(F + "aqua.py::AQUA", Dt=P.sym("Dt_i"), alpha=P.sym("alpha"), beta=P.sym("beta"), threshold=P.sym("thr"), adaptive=False)
                args = [q.copy(), w, M @ e3] + ([M @ mw] if marg else [])
                try:
                    out = to_obj(it.run(f, args, {"dt": P.ZERO}, self_obj=obj))
                    r = eq(out, q, "AQUA.%s at the truth [%s]" % (f.name, name))
                except Exception as e:
                    r = (None, "%s: %s" % (type(e).__name__, str(e)[:80]))
                if r is True:
                    return True
                outs.append(r)
            refuted = [r for r in outs if r[0] is False]
            return refuted[0] if len(refuted) == len(outs) else outs[0]
        chk.ob("EQUILIBRIUM", f.ref, "with consistent data (either convention) and dt = 0 AQUA returns the attitude unchanged: both delta quaternions are the identity", law,
               module=f.module.rel, function=f.qname, construct="correction vanishes at the truth", line=f.node.lineno)


def aqua_short_arc(chk, prog):
    """SHORT-ARC (interval analysis): AQUA corrects by interpolating between the identity and a delta quaternion (slerp_I).  The
    interpolation follows the short arc -- towards the measured direction -- only if the delta quaternion's scalar part is >= 0;
    every vector handed to slerp_I must therefore have a provably non-negative first component on every arm that builds it."""
    from sa.interval import Intervals
    cls = prog.cls(F + "aqua.py::AQUA")
    total = 0
    for f in cls.methods.values():
        if not any(isinstance(c, ast.Call) and ast.unparse(c.func).split(".")[-1] == "slerp_I" for c in ast.walk(f.node)):
            continue
        chk.touch(f)
        seen = []

        def on_call(c, env, iv):
            if ast.unparse(c.func).split(".")[-1] == "slerp_I" and c.args and isinstance(c.args[0], ast.Name):
                seen.append((c, env.get(c.args[0].id + "[0]")))
        Intervals(f, on_call=on_call).analyse()
        uniq = {}
        for c, b in seen:
            prev = uniq.get(c.lineno)
            uniq[c.lineno] = (c, b if prev is None or prev[1] is None or b is None else (min(prev[1][0], b[0]), max(prev[1][1], b[1])))
        for c, b in uniq.values():
            total += 1
            site = "%s::%s" % (f.ref, ast.unparse(c)[:60])
            if b is not None and b[0] >= 0:
                chk.record("SHORT-ARC", site, "scalar part of the delta quaternion lies in [%g, %g]" % b)
            else:
                why = "the delta quaternion `%s` handed to slerp_I can have a negative scalar part on some arm (bounds %s): the interpolation from the identity then runs the long " \
                      "way round and the correction turns the estimate away from the measured direction" % (ast.unparse(c.args[0]), b)
                chk.record("SHORT-ARC", site, "scalar part of the delta quaternion is non-negative on every arm", verdict="VIOLATION", detail=why)
                chk.finding("SHORT-ARC", f.module.rel, f.qname, "slerp_I(%s, ...)" % ast.unparse(c.args[0]), why, line=c.lineno)
    if total < 2:
        chk.error("SHORT-ARC: class AQUA has %d slerp_I calls with a named delta quaternion, at least 2 confirmed by hand" % total)


def aqua_gain_input(chk, prog):
    """GAIN-INPUT (must-facts, continued into private helpers): AQUA's adaptive gain measures how far the *magnitude* of the accelerometer sample is from
    gravity.  The vector handed to adaptive_gain must therefore be the raw sample: a value that carries the must-fact UNIT (already divided by its own
    norm) has magnitude 1 whatever was measured, the magnitude error is the constant |1 - g|/g, and the gain collapses to 0 -- the tilt is never corrected."""
    cls = prog.cls(F + "aqua.py::AQUA")
    n = 0
    work = [(m, None, None, 0) for m in cls.methods.values() if m.name in ("updateIMU", "updateMARG", "estimate")]
    seen = set()
    while work:
        f, seed, facts_in, depth = work.pop()
        key = (f.ref, tuple(sorted((seed or {}).items())), facts_in)
        if key in seen:
            continue
        seen.add(key)

        def on_call(fa, node, st, f=f, depth=depth):
            nonlocal n
            name = ast.unparse(node.func).split(".")[-1]
            if name == "adaptive_gain" and node.args:
                n += 1
                arg = node.args[0]
                site = "%s::adaptive_gain(%s)" % (f.ref, ast.unparse(arg)[:40])
                if fa.is_unit(arg, st):
                    why = "adaptive_gain(%s) receives a vector already normalised to unit length: its magnitude is 1 for every sample, so the magnitude error the gain is derived from is " \
                          "constant and the adaptive gain is always 0 (no tilt correction with adaptive=True)" % ast.unparse(arg)[:40]
                    chk.record("GAIN-INPUT", site, "adaptive_gain receives the raw accelerometer sample", verdict="VIOLATION", detail=why)
                    chk.finding("GAIN-INPUT", f.module.rel, f.qname, "adaptive_gain(%s)" % ast.unparse(arg)[:40], why, line=node.lineno)
                else:
                    chk.record("GAIN-INPUT", site, "the argument is not a normalised value (%s)" % fa.vn(arg, st)[:40])
            if depth < 2 and isinstance(node.func, ast.Attribute) and isinstance(node.func.value, ast.Name) and node.func.value.id == fa.self_name:
                g = cls.methods.get(node.func.attr)
                if g is not None and g is not fa.func and g.name not in ("updateIMU", "updateMARG", "estimate", "Omega"):
                    params = g.params[1:]
                    sd = {p: "P:%s.%s" % (g.name, p) for p in params}
                    extra = set()
                    for p, a in list(zip(params, node.args)) + [(k.arg, k.value) for k in node.keywords if k.arg in sd]:
                        sd[p] = fa.vn(a, st)
                        if fa.is_unit(a, st):
                            extra.add(("UNIT", sd[p]))       # facts of argument expressions travel with their value numbers
                    work.append((g, sd, st["F"] | frozenset(extra), depth + 1))
        Facts(f, prog, callbacks={"call": on_call}, seed=seed, seed_facts=facts_in).analyse()
    if n < 1:
        chk.error("GAIN-INPUT: no adaptive_gain call site reached in AQUA (2 confirmed by hand)")


def canaries(chk, prog):
    from sa.report import Check

    def j_sign(tree):
        for c in ast.walk(tree):
            if isinstance(c, ast.FunctionDef) and c.name == "updateIMU":
                for s in ast.walk(c):
                    if isinstance(s, ast.Assign) and isinstance(s.targets[0], ast.Name) and s.targets[0].id == "J":
                        for u in ast.walk(s.value):
                            if isinstance(u, ast.UnaryOp) and isinstance(u.op, ast.USub):
                                u.op = ast.UAdd()
                                return True
        return False

    def step_sign(tree):
        for c in ast.walk(tree):
            if isinstance(c, ast.FunctionDef) and c.name == "updateIMU":
                for s in ast.walk(c):
                    if isinstance(s, ast.AugAssign) and isinstance(s.target, ast.Name) and s.target.id == "qDot":
                        s.op = ast.Add()
                        return True
        return False

    def mahony_sign(tree):
        for c in ast.walk(tree):
            if isinstance(c, ast.FunctionDef) and c.name == "updateIMU":
                for s in ast.walk(c):
                    if isinstance(s, ast.Assign) and isinstance(s.targets[0], ast.Name) and s.targets[0].id == "omega_mes":
                        s.value.args[0], s.value.args[1] = s.value.args[1], s.value.args[0]
                        return True
        return False
    for name, rel, tr, fn, rule in (("flip a sign in Madgwick's IMU Jacobian", F + "madgwick.py", j_sign, madgwick, "FEEDBACK.jacobian"),
                                    ("qDot += gain*gradient in Madgwick.updateIMU", F + "madgwick.py", step_sign, madgwick, "FEEDBACK.step"),
                                    ("swap the cross product operands in Mahony.updateIMU", F + "mahony.py", mahony_sign, mahony, "FEEDBACK.lyapunov")):
        try:
            p2 = prog.mutated(rel, tr)
            sub = Check("C05", chk.tier, p2, quiet=True)
            fn(sub, p2)
            chk.canary(name, any(f.rule == rule for f in sub.findings), "%d findings (%s)" % (len(sub.findings), ",".join(sorted({f.rule for f in sub.findings}))))
        except Exception as e:
            chk.canary(name, False, "crashed: %s: %s" % (type(e).__name__, e))


def run(chk, prog, tier):
    madgwick(chk, prog)
    mahony(chk, prog)
    ekf(chk, prog)
    reference_unit(chk, prog)
    blends(chk, prog)
    am_tilt(chk, prog)
    from props.c04 import oleq
    oleq(chk, prog)
    chk.require_count("EQUILIBRIUM", 7)      # the complementary filter may serve its two column sets from one blend statement
    chk.require_count("FEEDBACK.jacobian", 3)
    madgwick_guard(chk, prog)
    aqua_equilibrium(chk, prog)
    aqua_short_arc(chk, prog)
    aqua_gain_input(chk, prog)
    # AQUA's adaptive gain is a function of the current sample: fed back into itself it can only shrink (factor <= 1), and once a single hard acceleration has
    # driven it to 0 the filter never corrects again - no convergence from any initial orientation (C13's RECOMPUTED rule, shared; round 9)
    from props.c13 import recomputed_rule
    recomputed_rule(chk, prog)
    canaries(chk, prog)
    return __doc__
