"""C05 — recursive filters converge to the sensed attitude from any initial orientation.

Convergence within a bounded number of samples, the final tolerance and the monotone decrease of the error are properties
of trajectories of a nonlinear recursion: they are NOT decided.  Two necessary conditions are in the shape of the code and
are decided exactly (AVN):
 EQUILIBRIUM   with consistent data the correction term vanishes identically at the truth: Madgwick's objective f (IMU and
               MARG), Mahony's omega_mes (IMU and MARG), the EKF innovation and corrected state, FKF's affine update, the
               complementary blend, OLEQ/ROLEQ's fixed direction (shared with C04);
 FEEDBACK      the sign / structure of the correction where it is a closed form:
               Madgwick: J == d f / d q entry by entry (formal Jacobian of the extracted objective) and the step is
               qDot -= gain * normalised(J^T f), i.e. descent along the gradient of 1/2 |f|^2;
               Mahony: along qdot = 1/2 q (x) (0, k_P omega_mes) the Lyapunov function V = 1 - a.v_a(q) has
               dV/dt == -k_P |a x v_a|^2 (descent), and the bias integrator uses -k_I omega_mes;
               EKF: q = q_t + K (z - h(q_t)), K = P_t H^T S^-1, S = H P_t H^T + R (value numbers) and
               dhdq('normal') == d(E_hom(q)^T ref)/dq for the homogeneous representative of the extracted matrix.
A flipped sign in any of these makes the truth a repeller or moves the equilibrium; that is what the rules detect.
"""
import ast
import numpy as np
from sa import poly as P
from sa.facts import Facts
from sa.symeval import Interp, Env, sym_vec, sym_mat, to_obj, unit_syms, unit_vec
from sa.lib import eq, all_of, I, E_ref, hamilton_ref

F = "ahrs/filters/"


def find_assign(f, name):
    for s in ast.walk(f.node):
        if isinstance(s, ast.Assign) and isinstance(s.targets[0], ast.Name) and s.targets[0].id == name:
            return s
    return None


def madgwick(chk, prog):
    for meth, marg in (("updateIMU", False), ("updateMARG", True)):
        f = prog.func(F + "madgwick.py::Madgwick." + meth)
        chk.touch(f)
        kw = dict(module=f.module.rel, function=f.qname, line=f.node.lineno)
        fs, Js = find_assign(f, "f"), find_assign(f, "J")
        if fs is None or Js is None:
            chk.error("Madgwick.%s: objective f / Jacobian J assignments not found" % meth)
            continue
        qs = sym_vec("jq", 4, "wxyz")
        a, m = sym_vec("ja", 3), sym_vec("jm", 3)
        bx, bz = P.sym("bx"), P.sym("bz")

        def extract(qv=qs):
            it = Interp(prog)
            env = Env(f.module, f)
            env.vars.update({"qw": qv[0], "qx": qv[1], "qy": qv[2], "qz": qv[3], "a": a, "m": m, "bx": bx, "bz": bz})
            return to_obj(it.eval(fs.value, env)), to_obj(it.eval(Js.value, env))

        def jac():
            fv, J = extract()
            outs = []
            for i in range(len(fv)):
                for j, s_ in enumerate(("jqw", "jqx", "jqy", "jqz")):
                    outs.append(eq(J[i, j], fv[i].deriv(s_), "J[%d,%d]" % (i, j)))
            return all_of(*outs)
        chk.ob("FEEDBACK.jacobian", f.ref, "J[i][j] == d f_i / d q_j for the extracted objective f", jac, construct="Jacobian of the objective", **kw)

        def equilibrium():
            q = unit_syms("cq")
            E = E_ref(q)
            it = Interp(prog)
            env = Env(f.module, f)
            bu = unit_vec("jb", 2)
            ref = np.array([bu[0], P.ZERO, bu[1]], dtype=object)
            env.vars.update({"qw": q[0], "qx": q[1], "qy": q[2], "qz": q[3], "a": E.T @ np.array([P.ZERO, P.ZERO, P.ONE], dtype=object),
                             "m": E.T @ ref, "bx": bu[0], "bz": bu[1]})
            fv = to_obj(it.eval(fs.value, env))
            return eq(fv, np.array([P.ZERO] * len(fv), dtype=object), "f at the truth")
        chk.ob("EQUILIBRIUM", f.ref, "objective f == 0 for a = E(q)^T e3%s" % (", m = E(q)^T (bx, 0, bz)" if marg else ""), equilibrium, construct="objective vanishes at the truth", **kw)
        # step structure
        facts = {}

        class G(Facts):
            def s_AugAssign(self2, s, st):
                if isinstance(s.target, ast.Name) and s.target.id == "qDot":
                    facts["op"] = type(s.op).__name__
                    facts["rhs"] = self2.vn(s.value, st)
                    facts["grad"] = st.get("v:gradient")
                return super().s_AugAssign(s, st)
        G(f, prog).analyse()
        ok = facts.get("op") == "Sub" and "S:gain" in (facts.get("rhs") or "") and (facts.get("grad") or "").startswith("Div(MatMult(T(")
        if ok:
            chk.record("FEEDBACK.step", f.ref, "qDot -= gain * (J^T f)/|J^T f|  (descent direction)")
        else:
            chk.record("FEEDBACK.step", f.ref, "qDot -= gain * normalised(J^T f)", verdict="VIOLATION", detail=str(facts))
            chk.finding("FEEDBACK.step", f.module.rel, f.qname, "gradient step: qDot %s= %s" % ({"Sub": "-", "Add": "+"}.get(facts.get("op"), "?"), facts.get("rhs")),
                        "the correction is not `qDot -= gain * J^T f / |J^T f|`: ascent instead of descent makes the true attitude unstable", line=f.node.lineno)


def mahony(chk, prog):
    for meth, marg in (("updateIMU", False), ("updateMARG", True)):
        f = prog.func(F + "mahony.py::Mahony." + meth)
        chk.touch(f)
        kw = dict(module=f.module.rel, function=f.qname, line=f.node.lineno)
        w = sym_vec("mw", 3)
        kP, kI, dt = P.sym("kP"), P.sym("kI"), P.sym("dt")

        def run(q, acc, mag):
            it = Interp(prog, oracle=lambda c, i: True if c.op == ">" else None)
            obj = it.make_obj(F + "mahony.py::Mahony", Dt=dt, k_P=kP, k_I=kI, b=np.array([P.ZERO] * 3, dtype=object))
            args = [q, w, acc] + ([mag] if marg else [])
            it.run(f, args, {"dt": dt}, self_obj=obj)
            return it.last_env.vars, obj

        def equilibrium():
            q = unit_syms("cq")
            E = E_ref(q)
            bu = unit_vec("mb", 2)
            P.declare_positive(bu[0])
            acc = E.T @ np.array([P.ZERO, P.ZERO, P.ONE], dtype=object)
            mag = E.T @ np.array([P.ZERO, bu[0], bu[1]], dtype=object)
            env, obj = run(q, acc, mag)
            om = to_obj(env["omega_mes"])
            return all_of(eq(om, np.array([P.ZERO] * 3, dtype=object), "omega_mes at the truth"), eq(obj.attrs["b"], np.array([P.ZERO] * 3, dtype=object), "bias unchanged at the truth"))
        chk.ob("EQUILIBRIUM", f.ref, "omega_mes == 0 and the bias is unchanged for consistent data", equilibrium, construct="correction vanishes at the truth", **kw)
        if not marg:
            def lyapunov():
                qf = sym_vec("lq", 4, "wxyz")                 # free symbols: the formal gradient is taken before restricting to the sphere
                a = unit_vec("la")
                # v_a(q) as the code computes it: third row of the extracted matrix
                it = Interp(prog)
                from sa.lib import quat_obj, QUAT
                R = to_obj(it.run(prog.func(QUAT + "::Quaternion.to_DCM"), [], self_obj=quat_obj(it, qf)))
                v_a = R.T @ np.array([P.ZERO, P.ZERO, P.ONE], dtype=object)
                om_free = it.np.cross(a, v_a)
                qdot = hamilton_ref(qf, np.concatenate([[P.ZERO], kP * om_free])) / 2
                Vdot = P.ZERO
                for k, s_ in enumerate(("lqw", "lqx", "lqy", "lqz")):
                    for i in range(3):
                        Vdot = Vdot - a[i] * v_a[i].deriv(s_) * qdot[k]
                # restrict to the unit sphere
                qu = unit_syms("lu")
                sub = {"lqw": qu[0], "lqx": qu[1], "lqy": qu[2], "lqz": qu[3]}
                Vdot_u = Vdot.subs(sub)
                om_u = np.array([x.subs(sub) for x in om_free], dtype=object)
                want = -kP * (om_u @ om_u)
                # and the code's omega_mes is this cross product
                env, _ = run(qu, a, None)
                code_om = to_obj(env["omega_mes"])
                return all_of(eq(code_om, om_u, "omega_mes == a x v_a"), eq(Vdot_u, want, "dV/dt"))
            chk.ob("FEEDBACK.lyapunov", f.ref, "dV/dt == -k_P |a x v_a|^2 along qdot = 1/2 q (x) (0, k_P omega_mes), V = 1 - a.v_a(q)", lyapunov, construct="Lyapunov descent", **kw)
        # PI structure by AVN: new bias == b - k_I*omega_mes*dt ; result == normalise(q + dt/2 q (x) (0, gyr - b_new + k_P*omega_mes))
        def pi_law():
            qu = unit_syms("pq")
            a_ = unit_vec("pa")
            b0 = sym_vec("pb", 3)
            it = Interp(prog, oracle=lambda c, i: True if c.op == ">" else None)
            obj = it.make_obj(F + "mahony.py::Mahony", Dt=dt, k_P=kP, k_I=kI, b=b0.copy())
            if marg:
                bu = unit_vec("pm")
                out = it.run(f, [qu, w, a_, bu], {"dt": dt}, self_obj=obj)
            else:
                out = it.run(f, [qu, w, a_], {"dt": dt}, self_obj=obj)
            om = to_obj(it.last_env.vars["omega_mes"])
            b_new = to_obj(obj.attrs["b"])
            rate = w - b_new + kP * om
            from sa.lib import normalized
            want = normalized(qu + hamilton_ref(qu, np.concatenate([[P.ZERO], rate])) * dt / 2)
            return all_of(eq(b_new, b0 - kI * om * dt, "bias update"), eq(out, want, "corrected step"))
        if not marg:
            chk.ob("FEEDBACK.pi", f.ref, "b += -k_I omega_mes dt and the step integrates gyr - b + k_P omega_mes", pi_law, construct="PI correction", **kw)
        else:
            # MARG: same structure, checked through value numbers of the bias update and of Omega
            info = {}

            class G(Facts):
                def s_AugAssign(self2, s, st):
                    if isinstance(s.target, ast.Attribute) and s.target.attr == "b":
                        info["b_op"] = type(s.op).__name__
                        info["b_rhs"] = self2.vn(s.value, st)
                        info["om"] = st.get("v:omega_mes")
                    return super().s_AugAssign(s, st)

                def s_Assign(self2, s, st):
                    out = super().s_Assign(s, st)
                    if isinstance(s.targets[0], ast.Name) and s.targets[0].id == "Omega" and "S:k_P" in (st.get("v:Omega") or ""):
                        info["Omega"] = st.get("v:Omega")
                    return out
            G(f, prog).analyse()
            om = info.get("om") or "?"
            ok = info.get("b_op") == "Add" and info.get("b_rhs") is not None and "neg(S:k_I)" in info["b_rhs"] and om in info["b_rhs"] \
                and info.get("Omega") is not None and ("Mult(%s,S:k_P)" % om in info["Omega"] or "Mult(S:k_P,%s)" % om in info["Omega"]) and "Sub(" in info["Omega"]
            if ok:
                chk.record("FEEDBACK.pi", f.ref, "b += (-k_I omega_mes) dt; Omega = gyr - b + k_P omega_mes (value numbers)")
            else:
                chk.record("FEEDBACK.pi", f.ref, "PI correction has the documented signs", verdict="VIOLATION", detail=str(info)[:300])
                chk.finding("FEEDBACK.pi", f.module.rel, f.qname, "PI correction terms", "the bias integrator / proportional term no longer value-number to b += -k_I*omega_mes*dt and Omega = gyr - b + k_P*omega_mes", line=f.node.lineno)


def ekf(chk, prog):
    fu = prog.func(F + "ekf.py::EKF.update")
    fh = prog.func(F + "ekf.py::EKF.h")
    fd = prog.func(F + "ekf.py::EKF.dhdq")
    for f in (fu, fh, fd):
        chk.touch(f)
    aref, mref = sym_vec("ar", 3), sym_vec("mr", 3)
    kw = dict(module=fu.module.rel, function="EKF.dhdq", line=fd.node.lineno)

    def jac():
        qf = sym_vec("eq", 4, "wxyz")
        it = Interp(prog)
        obj = it.make_obj(F + "ekf.py::EKF", a_ref=aref, m_ref=mref, mag=None)
        H = to_obj(it.run(fd, [qf], {"mode": "normal", "with_mag": True}, self_obj=obj))
        w, x, y, z = qf
        s = w * w + x * x + y * y + z * z
        Ehom = E_ref(qf) * s
        hh = np.concatenate([Ehom.T @ aref, Ehom.T @ mref])
        outs = []
        for i in range(6):
            for j, s_ in enumerate(("eqw", "eqx", "eqy", "eqz")):
                outs.append(eq(H[i, j], hh[i].deriv(s_), "H[%d,%d]" % (i, j)))
        return all_of(*outs)
    chk.ob("FEEDBACK.jacobian", fd.ref, "dhdq('normal') == d(E_hom(q)^T [a_ref; m_ref]) / dq", jac, construct="measurement Jacobian", **kw)

    def model():
        q = unit_syms("cq")
        it = Interp(prog)
        obj = it.make_obj(F + "ekf.py::EKF", a_ref=aref, m_ref=mref, mag=None)
        y = to_obj(it.run(fh, [q, True], self_obj=obj))
        E = E_ref(q)
        return eq(y, np.concatenate([E.T @ aref, E.T @ mref]), "h(q)")
    chk.ob("EQUILIBRIUM", fh.ref, "h(q) == [E(q)^T a_ref; E(q)^T m_ref] (so the innovation vanishes for consistent data)", model, module=fu.module.rel, function="EKF.h",
           construct="measurement model", line=fh.node.lineno)
    # update structure by value numbers (captured when each local is assigned)
    info = {}

    class G(Facts):
        def s_Assign(self2, s, st):
            out = super().s_Assign(s, st)
            if isinstance(s.targets[0], ast.Name) and s.targets[0].id in ("K", "S", "v", "q", "y", "P_t", "H", "z", "q_t"):
                nm = s.targets[0].id
                info.setdefault(nm, []).append(st.get("v:" + nm))
                snap = {k[2:]: v_ for k, v_ in st.items() if k.startswith("v:") and k[2:] in ("K", "S", "v", "y", "P_t", "H", "z", "q_t")}
                snap["R"] = st.get("s:R", "S:R")
                info.setdefault("@" + nm, []).append(snap)
            return out
    G(fu, prog).analyse()

    def add(a_, b_):
        l, r = sorted((a_, b_))
        return "Add(%s,%s)" % (l, r)
    last = lambda n: (info.get(n) or [None])[-1]
    at = lambda n: (info.get("@" + n) or [{}])[-1]          # operand value numbers at the time `n` was assigned
    problems = []
    y, v, S_, K = last("y"), last("v"), last("S"), last("K")
    if not (y and at("y").get("q_t") and y.startswith("g:self.h(%s" % at("y")["q_t"])):
        problems.append("y is not self.h(q_t)")
    if not (v and v == "Sub(%s,%s)" % (at("v").get("z"), at("v").get("y"))):
        problems.append("v is not z - y")
    sS = at("S")
    if not (S_ and S_ == add("MatMult(MatMult(%s,%s),T(%s))" % (sS.get("H"), sS.get("P_t"), sS.get("H")), sS.get("R"))):
        problems.append("S is not H P_t H^T + R")
    sK = at("K")
    if not (K and K == "MatMult(MatMult(%s,T(%s)),np.linalg.inv(%s))" % (sK.get("P_t"), sK.get("H"), sK.get("S"))):
        problems.append("K is not P_t H^T S^-1")
    ok_q = False
    for qv, snap in zip(info.get("q") or [], info.get("@q") or []):
        if qv == add(snap.get("q_t"), "MatMult(%s,%s)" % (snap.get("K"), snap.get("v"))):
            ok_q = True
    if not ok_q:
        problems.append("q is not q_t + K v")
    if not problems:
        chk.record("FEEDBACK.kalman", fu.ref, "y = h(q_t); v = z - y; S = H P_t H^T + R; K = P_t H^T S^-1; q = q_t + K v")
    else:
        chk.record("FEEDBACK.kalman", fu.ref, "Kalman correction structure", verdict="VIOLATION", detail="; ".join(problems))
        chk.finding("FEEDBACK.kalman", fu.module.rel, "EKF.update", "Kalman correction: " + "; ".join(problems),
                    "the correction no longer has the form v = z - h(q_t), S = H P_t H^T + R, K = P_t H^T S^-1, q = q_t + K v (%s)" % "; ".join(problems), line=fu.node.lineno)


def blends(chk, prog):
    # complementary filter: weights sum to one
    f = prog.func(F + "complementary.py::Complementary._compute_all")
    chk.touch(f)
    n = 0
    for loop in ast.walk(f.node):
        if isinstance(loop, ast.For):
            for s in loop.body:
                if isinstance(s, ast.Assign):
                    n += 1
                    it = Interp(prog)
                    T, g, gain, Dt = P.sym("T"), P.sym("gyr"), P.sym("gain"), P.sym("Dt")

                    class _A:
                        _avn_native = True

                        def __getitem__(self, k):
                            return self.v

                        def __init__(self, v):
                            self.v = v
                    env = Env(f.module, f)
                    obj = it.make_obj(F + "complementary.py::Complementary", gyr=_A(P.ZERO), Dt=Dt, gain=gain)
                    env.vars.update({"self": obj, "W": _A(T), "W2": _A(T), "i": 1})
                    site = f.ref + "::" + ast.unparse(s.targets[0])

                    def law(s=s, env=env, it=it):
                        return eq(it.eval(s.value, env), T, "blend at the truth")
                    chk.ob("EQUILIBRIUM", site, "blend of (previous + gyr dt) and the measured angles returns the truth when both equal it and the rate is zero (weights sum to 1)", law,
                           module=f.module.rel, function=f.qname, construct="complementary blend", line=s.lineno)
    if n < 2:
        chk.error("Complementary._compute_all: blend statements not found")
    # FKF: affine update with weights summing to one
    fk = prog.func(F + "fkf.py::FKF.kalman_update")
    chk.touch(fk)

    def fkf():
        q1 = unit_syms("cq")
        Phi = I(4)
        G = sym_mat("Ginv", 4, 4)
        it = Interp(prog, intercepts={"np.linalg.inv": lambda i, a, k: G})
        obj = it.make_obj(F + "fkf.py::FKF")
        out = it.run(fk, [q1, q1.copy(), sym_mat("Pk", 4, 4), Phi, sym_mat("Se", 4, 4), sym_mat("Sv", 4, 4)], self_obj=obj)
        return eq(to_obj(out[0]), q1, "kalman_update at the truth")
    chk.ob("EQUILIBRIUM", fk.ref, "q_ + Gk (q_am - q_) == q_ when the measurement quaternion equals the prediction", fkf, module=fk.module.rel, function=fk.qname,
           construct="affine Kalman update", line=fk.node.lineno)


def canaries(chk, prog):
    from sa.report import Check

    def j_sign(tree):
        for c in ast.walk(tree):
            if isinstance(c, ast.FunctionDef) and c.name == "updateIMU":
                for s in ast.walk(c):
                    if isinstance(s, ast.Assign) and isinstance(s.targets[0], ast.Name) and s.targets[0].id == "J":
                        for u in ast.walk(s.value):
                            if isinstance(u, ast.UnaryOp) and isinstance(u.op, ast.USub):
                                u.op = ast.UAdd()
                                return True
        return False

    def step_sign(tree):
        for c in ast.walk(tree):
            if isinstance(c, ast.FunctionDef) and c.name == "updateIMU":
                for s in ast.walk(c):
                    if isinstance(s, ast.AugAssign) and isinstance(s.target, ast.Name) and s.target.id == "qDot":
                        s.op = ast.Add()
                        return True
        return False

    def mahony_sign(tree):
        for c in ast.walk(tree):
            if isinstance(c, ast.FunctionDef) and c.name == "updateIMU":
                for s in ast.walk(c):
                    if isinstance(s, ast.Assign) and isinstance(s.targets[0], ast.Name) and s.targets[0].id == "omega_mes":
                        s.value.args[0], s.value.args[1] = s.value.args[1], s.value.args[0]
                        return True
        return False
    for name, rel, tr, fn, rule in (("flip a sign in Madgwick's IMU Jacobian", F + "madgwick.py", j_sign, madgwick, "FEEDBACK.jacobian"),
                                    ("qDot += gain*gradient in Madgwick.updateIMU", F + "madgwick.py", step_sign, madgwick, "FEEDBACK.step"),
                                    ("swap the cross product operands in Mahony.updateIMU", F + "mahony.py", mahony_sign, mahony, "FEEDBACK.lyapunov")):
        try:
            p2 = prog.mutated(rel, tr)
            sub = Check("C05", chk.tier, p2, quiet=True)
            fn(sub, p2)
            chk.canary(name, any(f.rule == rule for f in sub.findings), "%d findings (%s)" % (len(sub.findings), ",".join(sorted({f.rule for f in sub.findings}))))
        except Exception as e:
            chk.canary(name, False, "crashed: %s: %s" % (type(e).__name__, e))


def run(chk, prog, tier):
    madgwick(chk, prog)
    mahony(chk, prog)
    ekf(chk, prog)
    blends(chk, prog)
    from props.c04 import oleq
    oleq(chk, prog)
    chk.require_count("EQUILIBRIUM", 8)
    chk.require_count("FEEDBACK.jacobian", 3)
    canaries(chk, prog)
    return __doc__
