"""C06 — batch run equals sample-by-sample streaming; filters deterministic and isolated.

Decided (effects + call graph; no arithmetic is evaluated):
 NO-DATA-READ   nothing reachable from a streaming entry point (update/updateIMU/updateMARG) reads a batch-data
                attribute (the arrays __init__ stores from gyr/acc/mag, or the outputs Q/W); arms that only resolve
                a defaulted parameter (``if p is None``) are skipped when the streaming caller passes p explicitly;
 CONFIG-NOT-FROM-DATA  no configuration attribute read by streaming code is assigned in the constructor under a
                dependence on the presence/content of batch data;
 PROTOCOL       each batch loop body is one call of the streaming method with (Q[t-1], self.gyr[t], self.acc[t][, self.mag[t]])
                in the parameter positions of the same names, every further argument being instance configuration
                or the parameter's default;
 ARG-HONOURED   once a streaming method resolved ``p = self.X if p is None else p`` it never reads self.X again
                (a later use of self.X would ignore the caller's per-sample value, e.g. dt);
 ISOLATION      carried state lives in self attributes that do not alias constructor arguments, no function under
                ahrs/filters writes in place into a module-level object or a class-level mutable attribute, no
                mutable default arguments;
 DETERMINISM    no RNG/clock call is reachable from streaming or batch code except OLEQ's documented random start.
Not decided: bit-identity of floating-point results (it follows from the above because both routes then execute
the same statements on the same state).
Added after the seeding rounds (DESIGN.md 6.6-6.8):
 PROTOCOL.rows / PROTOCOL.state  every output row of a batch loop comes from the streaming (or per-sample) method and the batch routine assigns no attribute the
            streaming method reads; RECOMPUTED  AQUA.alpha is a function of the current sample only.
Added after seeding rounds 5 and 6 and refactoring round 4 (DESIGN.md 6.10-6.12):
 PROTOCOL.rows also covers block stores outside the loops; hoisted optional samples accepted.
"""
import ast
LINT_EXTRA_FILES = ("ahrs/common/orientation.py", "ahrs/utils/core.py")      # acc2q / am2q / ecompass helpers the filters start from; the shared input validators
from sa.desugar import desugared
from sa.callgraph import call_sites, reachable, local_types
from sa.flow import Alias
from sa.model import stmt_text

F = "ahrs/filters/"
STREAMING = {
    "madgwick.py::Madgwick": ["updateIMU", "updateMARG"], "mahony.py::Mahony": ["updateIMU", "updateMARG"],
    "aqua.py::AQUA": ["updateIMU", "updateMARG"], "ekf.py::EKF": ["update"], "ukf.py::UKF": ["update"],
    "fourati.py::Fourati": ["update"], "roleq.py::ROLEQ": ["update"], "angular.py::AngularRate": ["update"],
}
DATA_PARAMS = {"gyr", "acc", "mag"}
OUTPUTS = {"Q", "W"}
RNG_ALLOWED = {"OLEQ.estimate": "random start vector of the power iteration (global NumPy RNG; property allows it under a fixed seed)"}
RNG_PREFIXES = ("np.random.", "random.", "time.time", "datetime.")


def data_attrs(cls):
    """attributes the constructor assigns straight from the array parameters"""
    init = cls.lookup("__init__")
    out = {}
    for n in ast.walk(init.node):
        if isinstance(n, (ast.Assign, ast.AnnAssign)):
            t = n.targets[0] if isinstance(n, ast.Assign) else n.target
            if isinstance(t, ast.Attribute) and isinstance(t.value, ast.Name) and t.value.id == "self" and isinstance(n.value, ast.Name) and n.value.id in DATA_PARAMS:
                out[t.attr] = n.value.id
    return out


class _Reads(ast.NodeVisitor):
    """attribute reads of self in one function, skipping default-resolution arms for explicitly passed params"""

    def __init__(self, f, explicit):
        self.f, self.explicit = f, explicit
        self.self_name = f.params[0] if f.cls is not None and f.params else None
        self.reads = []      # (attr, node)
        self.calls = []      # (node)

    def _is_none_test(self, test):
        """returns (param, is_none: bool) for `p is None` / `p is not None`"""
        if isinstance(test, ast.Compare) and len(test.ops) == 1 and isinstance(test.left, ast.Name) and \
                isinstance(test.comparators[0], ast.Constant) and test.comparators[0].value is None:
            if isinstance(test.ops[0], ast.Is):
                return test.left.id, True
            if isinstance(test.ops[0], ast.IsNot):
                return test.left.id, False
        return None

    def visit_If(self, node):
        t = self._is_none_test(node.test)
        if t and t[0] in self.explicit:
            for s in (node.orelse if t[1] else node.body):
                self.visit(s)
            return
        self.generic_visit(node)

    def visit_IfExp(self, node):
        t = self._is_none_test(node.test)
        if t and t[0] in self.explicit:
            self.visit(node.orelse if t[1] else node.body)
            return
        self.generic_visit(node)

    def visit_Attribute(self, node):
        if isinstance(node.value, ast.Name) and node.value.id == self.self_name and isinstance(node.ctx, ast.Load):
            self.reads.append((node.attr, node))
        self.generic_visit(node)

    def visit_Call(self, node):
        self.calls.append(node)
        # getattr(self, 'x') / self.__getattribute__('x')
        fn = node.func
        if isinstance(fn, ast.Attribute) and fn.attr == "__getattribute__" and node.args and isinstance(node.args[0], ast.Constant):
            self.reads.append((node.args[0].value, node))
        if isinstance(fn, ast.Name) and fn.id == "getattr" and len(node.args) >= 2 and isinstance(node.args[1], ast.Constant):
            self.reads.append((node.args[1].value, node))
        self.generic_visit(node)

    def visit_FunctionDef(self, node):
        if node is self.f.node:
            for s in self.f.body():
                self.visit(s)


def streaming_reads(entry, prog):
    """{attr: [(func, node, path)]} over everything reachable from the entry through self/typed calls"""
    out = {}
    seen = set()
    visited_calls = {}

    def go(f, explicit, path):
        key = (f.ref, tuple(sorted(explicit)))
        if key in seen or len(path) > 8:
            return
        seen.add(key)
        r = _Reads(f, explicit)
        r.visit(f.node)
        live_nodes = {id(n) for _, n in r.reads} | {id(c) for c in r.calls}
        for attr, node in r.reads:
            # a method/property name is a call edge, not a data read
            m = f.cls.lookup(attr) if f.cls else None
            if m is not None and not m.is_property:
                continue
            out.setdefault(attr, []).append((f, node, path))
        for node, callee, expl in call_sites(f):
            if id(node) not in live_nodes and not isinstance(node, ast.Attribute):
                continue
            if isinstance(node, ast.Attribute) and id(node) not in live_nodes:
                continue
            if callee.cls is not None and f.cls is not None and callee.cls in f.cls.mro():
                go(callee, expl or set(), path + [callee.qname])
    explicit = set(p for p in entry.params[1:])      # the streaming caller passes the samples; defaults may stay None
    explicit -= {"dt"}
    go(entry, explicit - {"dt"}, [entry.qname])
    return out


def tainted_config(cls, data):
    """attributes assigned in constructor-reachable code (not the batch routine) under a dependence on batch data"""
    init = cls.lookup("__init__")
    funcs = [init]
    for node, callee, _ in call_sites(init):
        if callee.cls is not None and callee.cls in cls.mro() and callee.name != "_compute_all" and callee not in funcs:
            funcs.append(callee)
    tainted = {}

    def mentions_data(expr, depth=0):
        for n in ast.walk(expr):
            if isinstance(n, ast.Attribute) and isinstance(n.value, ast.Name) and n.value.id == "self" and n.attr in data:
                return "self." + n.attr
            if isinstance(n, ast.Name) and n.id in DATA_PARAMS:
                return n.id
            # the value comes out of a helper of the class: what the helper returns (and tests on the way) counts
            if depth < 2 and isinstance(n, ast.Call) and isinstance(n.func, ast.Attribute) and isinstance(n.func.value, ast.Name) and n.func.value.id == "self":
                g = cls.lookup(n.func.attr)
                if g is not None and g.name != "_compute_all":
                    for x in ast.walk(g.node):
                        if isinstance(x, ast.Return) and x.value is not None:
                            d_ = mentions_data(x.value, depth + 1)
                            if d_:
                                return d_ + " (through %s)" % g.qname
        return None

    def walk(stmts, ctrl, f):
        for s in stmts:
            if isinstance(s, ast.If):
                d = mentions_data(s.test) or ctrl
                walk(s.body, d, f)
                walk(s.orelse, d, f)
            elif isinstance(s, (ast.For, ast.While, ast.With, ast.Try)):
                for fld in ("body", "orelse", "finalbody"):
                    walk(getattr(s, fld, []), ctrl, f)
                for h in getattr(s, "handlers", []):
                    walk(h.body, ctrl, f)
            elif isinstance(s, (ast.Assign, ast.AnnAssign, ast.AugAssign)):
                targets = s.targets if isinstance(s, ast.Assign) else [s.target]
                val = s.value
                for t in targets:
                    if isinstance(t, ast.Attribute) and isinstance(t.value, ast.Name) and t.value.id == "self":
                        if t.attr in data or t.attr in OUTPUTS:
                            continue
                        d = (mentions_data(val) if val is not None else None) or ctrl
                        if d:
                            tainted[t.attr] = (f, s, d)
    for f in funcs:
        walk(f.body(), None, f)
    return tainted


def check_class(chk, prog, key, methods):
    cls = prog.cls(F + key)
    data = data_attrs(cls)
    if len(data) < 1:
        chk.error("NO-DATA-READ: %s stores no batch data attribute from gyr/acc/mag (anchor changed)" % key)
    forbidden = set(data) | OUTPUTS
    tainted = tainted_config(cls, data)
    for m in methods:
        entry = cls.lookup(m)
        if entry is None:
            chk.error("streaming entry %s.%s vanished" % (key, m))
            continue
        chk.touch(entry)
        reads = streaming_reads(entry, prog)
        bad = 0
        for attr in sorted(reads):
            if attr in forbidden:
                for f, node, path in reads[attr]:
                    bad += 1
                    chk.finding("NO-DATA-READ", f.module.rel, f.qname, "self.%s read: %s" % (attr, _line_text(f, node)),
                                "streaming entry %s reaches a read of the batch attribute self.%s (path %s): a data-less instance fed sample by sample behaves differently from the batch run" % (
                                    entry.qname, attr, " -> ".join(path)), line=node.lineno)
            elif attr in tainted:
                tf, ts, dep = tainted[attr]
                bad += 1
                chk.finding("CONFIG-NOT-FROM-DATA", tf.module.rel, tf.qname, "self.%s = ... depends on %s: %s" % (attr, dep, stmt_text(ts)),
                            "configuration self.%s, read by streaming entry %s, is chosen in the constructor from the presence of batch data (%s)" % (attr, entry.qname, dep),
                            line=ts.lineno)
        chk.record("NO-DATA-READ", "%s%s.%s" % (F, key, m), "streaming read-set {%s} is disjoint from batch data %s" % (", ".join(sorted(reads)), sorted(forbidden)),
                   verdict="HOLDS" if not bad else "VIOLATION")
        arg_honoured(chk, entry)
    protocol(chk, prog, cls, methods)


def _line_text(f, node):
    # the statement containing node
    best = None
    for s in ast.walk(f.node):
        if isinstance(s, ast.stmt) and s.lineno <= node.lineno <= (s.end_lineno or s.lineno) and not isinstance(s, (ast.FunctionDef, ast.If, ast.For, ast.While, ast.With, ast.Try)):
            best = s
    return stmt_text(best) if best is not None else ast.unparse(node)


def arg_honoured(chk, entry):
    """p = self.X if p is None else p   ==>  no later read of self.X in the same function"""
    resolved = {}
    for s in entry.body():
        if isinstance(s, ast.Assign) and len(s.targets) == 1 and isinstance(s.targets[0], ast.Name) and isinstance(s.value, ast.IfExp):
            p = s.targets[0].id
            v = s.value
            t = v.test
            if isinstance(t, ast.Compare) and isinstance(t.left, ast.Name) and t.left.id == p and isinstance(t.ops[0], ast.Is):
                src = v.body
                if isinstance(src, ast.Attribute) and isinstance(src.value, ast.Name) and src.value.id == "self" and p in entry.params:
                    resolved[src.attr] = (p, s)
        # the same resolution written as a block:  if p is None: p = self.X
        if isinstance(s, ast.If) and isinstance(s.test, ast.Compare) and isinstance(s.test.left, ast.Name) and isinstance(s.test.ops[0], ast.Is) \
                and isinstance(s.test.comparators[0], ast.Constant) and s.test.comparators[0].value is None and s.test.left.id in entry.params and not s.orelse:
            p = s.test.left.id
            for b in s.body:
                if isinstance(b, ast.Assign) and len(b.targets) == 1 and isinstance(b.targets[0], ast.Name) and b.targets[0].id == p \
                        and isinstance(b.value, ast.Attribute) and isinstance(b.value.value, ast.Name) and b.value.value.id == "self":
                    resolved[b.value.attr] = (p, b)
    for attr, (p, s) in resolved.items():
        bad = [n for n in ast.walk(entry.node) if isinstance(n, ast.Attribute) and n.attr == attr and isinstance(n.value, ast.Name)
               and n.value.id == "self" and n.lineno > s.lineno]
        site = "%s::%s" % (entry.ref, p)
        if bad:
            for n in bad:
                chk.finding("ARG-HONOURED", entry.module.rel, entry.qname, "self.%s used after `%s` was resolved: %s" % (attr, p, _line_text(entry, n)),
                            "the per-call argument `%s` is resolved from self.%s but this statement reads self.%s again, ignoring the caller's value" % (p, attr, attr), line=n.lineno)
            chk.record("ARG-HONOURED", site, "resolved parameter is used instead of the attribute", verdict="VIOLATION")
        else:
            chk.record("ARG-HONOURED", site, "resolved parameter `%s` is used instead of self.%s everywhere after its resolution" % (p, attr))


def _resolves_from_self(callee, p):
    """the callee itself falls back to self.<p> when the parameter is None:  p = self.p if p is None else p"""
    d = _default_of(callee, p)
    if not (isinstance(d, ast.Constant) and d.value is None):
        return False
    for n in ast.walk(callee.node):
        if isinstance(n, ast.IfExp) and "self.%s" % p in ast.unparse(n) and "%s is None" % p in ast.unparse(n.test).replace("not None", "None"):
            return True
        if isinstance(n, ast.If) and ast.unparse(n.test) == "%s is None" % p and "self.%s" % p in ast.unparse(n):
            return True
    return False


def _subst_aliases(call, aliases):
    if not aliases:
        return call
    import copy

    class T(ast.NodeTransformer):
        def visit_Name(self, n):
            if isinstance(n.ctx, ast.Load) and n.id in aliases:
                return copy.deepcopy(aliases[n.id])
            return n
    c2 = copy.deepcopy(call)
    c2.args = [T().visit(a) for a in c2.args]
    for k in c2.keywords:
        k.value = T().visit(k.value)
    return ast.fix_missing_locations(c2)


def protocol(chk, prog, cls, methods):
    batch = cls.lookup("_compute_all")
    if batch is None:
        chk.error("PROTOCOL: %s has no _compute_all" % cls.name)
        return
    chk.touch(batch)
    batch = desugared(batch)       # enumerate / zip sample loops in index form
    n = 0
    covered = set()
    # locals that merely name instance attributes, bound once outside the sample loops:  gyr = self.gyr = np.copy(self.gyr);  method, order = self.method, self.order
    aliases, multi = {}, set()
    in_loops = {id(x) for lp in ast.walk(batch.node) if isinstance(lp, ast.For) for x in ast.walk(lp) if x is not lp}

    def _note(name, expr):
        if name in aliases or name in multi:
            multi.add(name)
            aliases.pop(name, None)
        else:
            aliases[name] = expr
    for a_ in ast.walk(batch.node):
        if isinstance(a_, ast.Assign):
            names = [t_.id for t_ in a_.targets if isinstance(t_, ast.Name)]
            attrs = [t_ for t_ in a_.targets if isinstance(t_, ast.Attribute) and isinstance(t_.value, ast.Name) and t_.value.id == "self"]
            for nm in names:
                if id(a_) in in_loops:
                    multi.add(nm)
                    aliases.pop(nm, None)
                elif attrs:
                    _note(nm, attrs[0])
                elif isinstance(a_.value, ast.Attribute) and isinstance(a_.value.value, ast.Name) and a_.value.value.id == "self":
                    _note(nm, a_.value)
                else:
                    multi.add(nm)
                    aliases.pop(nm, None)
            for t_ in a_.targets:
                if isinstance(t_, ast.Tuple) and isinstance(a_.value, ast.Tuple) and len(t_.elts) == len(a_.value.elts):
                    for e_, v_ in zip(t_.elts, a_.value.elts):
                        if isinstance(e_, ast.Name):
                            if id(a_) not in in_loops and isinstance(v_, ast.Attribute) and isinstance(v_.value, ast.Name) and v_.value.id == "self":
                                _note(e_.id, v_)
                            else:
                                multi.add(e_.id)
                                aliases.pop(e_.id, None)
        elif isinstance(a_, (ast.AugAssign, ast.For)):
            for x in ast.walk(a_.target):
                if isinstance(x, ast.Name):
                    multi.add(x.id)
                    aliases.pop(x.id, None)
    # an alias is only as good as the attribute is stable: drop those whose attribute is re-assigned later in the routine by a separate statement
    own_attrs = {x.attr for g in cls.methods.values() if g.name in ("__init__",) or g.name.startswith("_set") for x in ast.walk(g.node)
                 if isinstance(x, ast.Attribute) and isinstance(x.ctx, ast.Store) and isinstance(x.value, ast.Name) and x.value.id == "self"}
    for loop in ast.walk(batch.node):
        if not isinstance(loop, ast.For) or not isinstance(loop.target, ast.Name):
            continue
        t = loop.target.id
        # row stores of the loop body, also under `if <configuration>:` arms and as the arms of a conditional expression (merged IMU / MARG loops)
        def _stmts(body):
            for s_ in body:
                if isinstance(s_, ast.If):
                    yield from _stmts(s_.body)
                    yield from _stmts(s_.orelse)
                else:
                    yield s_
        pairs = []
        for s in _stmts(loop.body):
            if not isinstance(s, ast.Assign):
                continue
            arms = [s.value.body, s.value.orelse] if isinstance(s.value, ast.IfExp) else [s.value]
            pairs.extend((s, a_) for a_ in arms if isinstance(a_, ast.Call))
        for s, call in pairs:
            call = _subst_aliases(call, aliases)
            fn = call.func
            if not (isinstance(fn, ast.Attribute) and isinstance(fn.value, ast.Name) and fn.value.id == "self"):
                continue
            if fn.attr not in methods:
                if fn.attr == "estimate":
                    continue      # AQUA's gyro-less arms are single-frame estimates (C07's clause)
                continue
            n += 1
            covered.add(fn.attr)
            callee = cls.lookup(fn.attr)
            params = callee.params[1:]
            site = "%s::for %s: %s" % (batch.ref, t, stmt_text(s))
            problems = []
            bound = {}
            for p, a in zip(params, call.args):
                bound[p] = a
            for k in call.keywords:
                if k.arg:
                    bound[k.arg] = k.value
            # first parameter: previous attitude Q[t-1]
            q_arg = bound.get(params[0])
            tgt = s.targets[0]
            out_name = ast.unparse(tgt.value) if isinstance(tgt, ast.Subscript) else None
            if out_name is None or ast.unparse(tgt).replace(" ", "") != "%s[%s]" % (out_name, t):
                problems.append("result stored in `%s`, expected <output>[%s]" % (ast.unparse(tgt), t))
            if q_arg is None or ast.unparse(q_arg).replace(" ", "") != "%s[%s-1]" % (out_name, t):
                problems.append("previous attitude argument is `%s`, expected %s[%s-1]" % (ast.unparse(q_arg) if q_arg is not None else None, out_name, t))
            for p in params[1:]:
                a = bound.get(p)
                if p in DATA_PARAMS:
                    if a is None:
                        d = _default_of(callee, p)
                        if not (d is not None and isinstance(d, ast.Constant) and d.value is None and p == "mag"):
                            problems.append("sample parameter `%s` not passed" % p)
                        continue
                    want = "self.%s[%s]" % (p, t)
                    a_res = a
                    if isinstance(a, ast.Name):          # a local of the loop body assigned once: look at what it holds
                        defs_ = [x.value for x in ast.walk(loop) if isinstance(x, ast.Assign) and len(x.targets) == 1 and isinstance(x.targets[0], ast.Name) and x.targets[0].id == a.id]
                        if len(defs_) == 1:
                            a_res = defs_[0]
                    forms = [a_res]
                    if isinstance(a_res, ast.IfExp):
                        # `self.mag[t] if <configuration> else None` for an optional sample: the row, or the callee's own "absent" value
                        d_ = _default_of(callee, p)
                        none_ok = d_ is not None and isinstance(d_, ast.Constant) and d_.value is None
                        forms = [x for x in (a_res.body, a_res.orelse) if not (none_ok and isinstance(x, ast.Constant) and x.value is None)]
                    if not forms or any(ast.unparse(x).replace(" ", "") != want for x in forms):
                        problems.append("parameter `%s` receives `%s`, expected %s" % (p, ast.unparse(a_res), want))
                elif a is None:
                    # a constructor option stored under the parameter's own name must reach the streaming call
                    if p in own_attrs and not _resolves_from_self(callee, p):
                        problems.append("constructor option self.%s is not forwarded to `%s` (parameter `%s` keeps its default %s): the batch run ignores the option"
                                        % (p, callee.name, p, ast.unparse(_default_of(callee, p)) if _default_of(callee, p) is not None else "?"))
                elif a is not None:
                    txt = ast.unparse(a)
                    d = _default_of(callee, p)
                    same_default = d is not None and ast.unparse(d) == txt
                    if not (txt.startswith("self.") and "[" not in txt) and not same_default:
                        problems.append("extra argument `%s=%s` is neither instance configuration nor the default" % (p, txt))
            if problems:
                chk.record("PROTOCOL", site, "batch loop body is the streaming call", verdict="VIOLATION", detail="; ".join(problems))
                chk.finding("PROTOCOL", batch.module.rel, batch.qname, stmt_text(s), "; ".join(problems), line=s.lineno)
            else:
                chk.record("PROTOCOL", site, "batch loop body is exactly %s(Q[t-1], samples[t], config)" % callee.qname)
    # every row of the batch output comes out of the streaming method (or of the single-frame estimate used by the gyro-less arms): a loop that fills rows
    # with anything else is a second implementation of the filter, which is exactly what the property forbids unless it is proved equal
    for loop in ast.walk(batch.node):
        if not isinstance(loop, ast.For) or not isinstance(loop.target, ast.Name):
            continue
        t = loop.target.id
        for s in ast.walk(loop):
            if isinstance(s, ast.Assign) and isinstance(s.targets[0], ast.Subscript):
                tg = s.targets[0]
                idx = tg.slice.elts[0] if isinstance(tg.slice, ast.Tuple) else tg.slice
                if not (isinstance(idx, ast.Name) and idx.id == t):
                    continue
                v = s.value
                arms_ = [v.body, v.orelse] if isinstance(v, ast.IfExp) else [v]
                ok = all(isinstance(a_, ast.Call) and isinstance(a_.func, ast.Attribute) and isinstance(a_.func.value, ast.Name) and a_.func.value.id == "self"
                         and (a_.func.attr in methods or a_.func.attr == "estimate") for a_ in arms_)
                site = "%s::for %s: %s" % (batch.ref, t, stmt_text(s)[:60])
                if not ok:
                    why = "row `%s` of the batch output is computed by `%s`, not by the streaming method (%s): the batch route runs different code from the sample-by-sample route" % (
                        ast.unparse(tg), ast.unparse(v)[:60], "/".join(methods))
                    chk.record("PROTOCOL.rows", site, "output rows are produced by the streaming method", verdict="VIOLATION", detail=why)
                    chk.finding("PROTOCOL.rows", batch.module.rel, batch.qname, "row store %s" % stmt_text(s)[:70], why, line=s.lineno)
                else:
                    chk.record("PROTOCOL.rows", site, "row produced by the streaming / per-sample method")
    # ... and no block of rows is filled at once by other code: `Q[1:] = self._vectorised(...)` is a second implementation as well
    outputs = {ast.unparse(s.targets[0].value) for lp in ast.walk(batch.node) if isinstance(lp, ast.For) for s in ast.walk(lp)
               if isinstance(s, ast.Assign) and isinstance(s.targets[0], ast.Subscript) and isinstance(s.targets[0].value, ast.Name)} | {o for o in OUTPUTS}
    for s in ast.walk(batch.node):
        if isinstance(s, ast.Assign) and len(s.targets) == 1 and isinstance(s.targets[0], ast.Subscript) and ast.unparse(s.targets[0].value) in outputs:
            tg = s.targets[0]
            first = tg.slice.elts[0] if isinstance(tg.slice, ast.Tuple) else tg.slice
            if isinstance(first, ast.Slice) and not any(isinstance(lp, ast.For) and any(x is s for x in ast.walk(lp)) for lp in ast.walk(batch.node)):
                v = s.value
                if isinstance(v, ast.Call) and isinstance(v.func, ast.Attribute) and isinstance(v.func.value, ast.Name) and v.func.value.id == "self" and v.func.attr in methods:
                    continue
                why = "rows `%s` of the batch output are filled at once by `%s`, not by the streaming / per-sample method (%s): the batch route runs different code from the " \
                      "sample-by-sample route" % (ast.unparse(tg), ast.unparse(v)[:60], "/".join(methods))
                chk.record("PROTOCOL.rows", "%s::%s" % (batch.ref, stmt_text(s)[:60]), "output rows are produced by the streaming method", verdict="VIOLATION", detail=why)
                chk.finding("PROTOCOL.rows", batch.module.rel, batch.qname, "block store %s" % stmt_text(s)[:70], why, line=s.lineno)
    # carried state is initialised by the constructor, never by the batch routine: a data-less instance must stream from the same state
    stream_reads = set()
    for mname in methods:
        g = cls.lookup(mname)
        if g is not None:
            stream_reads |= {x.attr for x in ast.walk(g.node) if isinstance(x, ast.Attribute) and isinstance(x.ctx, ast.Load) and isinstance(x.value, ast.Name) and x.value.id == "self"}
    for s in ast.walk(batch.node):
        if isinstance(s, (ast.Assign, ast.AugAssign)):
            for tg in (s.targets if isinstance(s, ast.Assign) else [s.target]):
                if isinstance(tg, ast.Attribute) and isinstance(tg.value, ast.Name) and tg.value.id == "self" and tg.attr in stream_reads and tg.attr not in OUTPUTS:
                    why = "the batch routine assigns self.%s, which the streaming method reads: an instance created without data never gets this initialisation, so streaming the same samples starts from a different state" % tg.attr
                    chk.record("PROTOCOL.state", "%s::self.%s" % (batch.ref, tg.attr), "the batch routine does not initialise state the streaming method reads", verdict="VIOLATION", detail=why)
                    chk.finding("PROTOCOL.state", batch.module.rel, batch.qname, "self.%s assigned in the batch routine" % tg.attr, why, line=s.lineno)
    if len(covered) < len(set(methods)):
        chk.error("PROTOCOL: %s._compute_all calls %d of the %d streaming methods in its sample loops (%s missing)" % (cls.name, len(covered), len(set(methods)), ", ".join(sorted(set(methods) - covered))))


def _default_of(callee, p):
    a = callee.node.args
    params = a.posonlyargs + a.args
    defaults = [None] * (len(params) - len(a.defaults)) + list(a.defaults)
    for x, d in zip(params, defaults):
        if x.arg == p:
            return d
    return None


def isolation(chk, prog):
    from props.c19 import shared_state
    alias = Alias(prog)
    filt = [rel for rel in prog.modules if rel.startswith(F)]
    n = 0
    for rel in filt:
        m = prog.modules[rel]
        funcs = list(m.funcs.values()) + [f for c in m.classes.values() for f in c.methods.values()]
        for f in funcs:
            n += 1
            s = alias.summary(f)
            for ph, recs in s.mut.items():
                if ph[0] == "global":
                    for r in recs:
                        inner = r["path"][-1] if r["path"] else r
                        chk.finding("ISOLATION.global", rel, f.qname, "%s: %s" % (ph[2], inner["stmt"]),
                                    "in-place write into module-level object %s.%s, shared by every filter instance" % (ph[1], ph[2]), line=inner.get("line"))
            a = f.node.args
            for d in list(a.defaults) + [x for x in a.kw_defaults if x is not None]:
                if isinstance(d, (ast.List, ast.Dict, ast.Set)) or (isinstance(d, ast.Call) and ast.unparse(d.func).startswith("np.")):
                    chk.finding("ISOLATION.default", rel, f.qname, "default " + stmt_text(d), "mutable default argument is shared between calls and instances", line=f.node.lineno)
        # carried state must not alias constructor arguments
        for c in m.classes.values():
            ret, cells, mut, ctor = alias.ctor_summary(c)
            if ctor is None:
                continue
            for meth in c.methods.values():
                if meth.name in ("__init__", "__new__"):
                    continue
                s = alias.summary(meth)
                for ph, recs in s.mut.items():
                    if ph[0] == "cell" and ph[1] in cells:
                        leaked = [v for v in cells[ph[1]] if v[0] in ("param", "kw", "global")]
                        for r in recs:
                            if leaked:
                                inner = r["path"][-1] if r["path"] else r
                                chk.finding("ISOLATION.state-alias", rel, meth.qname, "self.%s: %s" % (ph[1], inner["stmt"]),
                                            "carried state self.%s is updated in place but may alias %s: two instances (or two runs) built from the same object share state" % (
                                                ph[1], ", ".join(str(v[1:]) for v in leaked)), line=inner.get("line"))
    chk.counts["ISOLATION.functions"] = n
    shared_state(chk, prog, alias, modules=set(filt))


# constructor edges taken only under an explicit option that no filter passes (checked below)
OPTION_EDGES = {("Quaternion.__new__", "random_attitudes"): "random", ("QuaternionArray.__new__", "random_attitudes"): None}


def _option_edges_unused(chk, prog):
    """no call under ahrs/filters passes random=... to Quaternion(), nor an int to QuaternionArray()"""
    for rel, m in prog.modules.items():
        if not rel.startswith(F):
            continue
        for n in ast.walk(m.tree):
            if isinstance(n, ast.Call) and isinstance(n.func, ast.Name) and n.func.id in ("Quaternion", "QuaternionArray"):
                if any(k.arg == "random" for k in n.keywords) or (n.func.id == "QuaternionArray" and n.args and isinstance(n.args[0], ast.Constant) and isinstance(n.args[0].value, int)):
                    chk.finding("DETERMINISM", rel, "<module>", stmt_text(n), "filter code requests a random attitude from the quaternion constructor", line=n.lineno)


def determinism(chk, prog):
    n = 0
    _option_edges_unused(chk, prog)
    for key, methods in STREAMING.items():
        cls = prog.cls(F + key)
        for m in methods + ["_compute_all"]:
            entry = cls.lookup(m)
            if entry is None:
                continue
            # random_attitudes is only called under an explicit option (random=True / integer argument) that no filter passes
            reach = reachable(entry, follow=lambda callee, _p=None: True, skip_conditional_to={"random_attitudes"})
            n += len(reach)
            for ref, (f, path) in reach.items():
                for c in ast.walk(f.node):
                    if isinstance(c, ast.Call):
                        t = ast.unparse(c.func)
                        if t.startswith(RNG_PREFIXES):
                            allowed = RNG_ALLOWED.get(f.qname)
                            if allowed is None and f.cls is not None and f.cls.name == "OLEQ" and t.startswith("np.random.random"):
                                # the documented random start vector, wherever inside class OLEQ the draw is written (global NumPy RNG, one draw of 4)
                                allowed = RNG_ALLOWED["OLEQ.estimate"]
                            if allowed is not None:
                                chk.record("DETERMINISM.allowed", "%s::%s" % (entry.ref, t), allowed)
                                continue
                            chk.finding("DETERMINISM", f.module.rel, f.qname, stmt_text(c),
                                        "RNG/clock call reachable from %s (path %s)" % (entry.qname, " -> ".join(path)), line=c.lineno)
            chk.record("DETERMINISM", entry.ref, "no RNG/clock reachable (%d functions)" % len(reach))
    chk.counts["DETERMINISM.functions_reached"] = n


def canaries(chk, prog):
    from sa.report import Check

    def read_data(cls, meth):
        def tr(tree):
            for c in ast.walk(tree):
                if isinstance(c, ast.ClassDef) and c.name == cls:
                    for fn in c.body:
                        if isinstance(fn, ast.FunctionDef) and fn.name == meth:
                            fn.body.insert(len(fn.body) - 1, ast.parse("_n = len(self.acc)").body[0])
                            return True
            return False
        return tr

    def swap_args(cls):
        def tr(tree):
            for c in ast.walk(tree):
                if isinstance(c, ast.ClassDef) and c.name == cls:
                    for n in ast.walk(c):
                        if isinstance(n, ast.Call) and isinstance(n.func, ast.Attribute) and n.func.attr == "update" and len(n.args) >= 3:
                            n.args[1], n.args[2] = n.args[2], n.args[1]
                            return True
            return False
        return tr
    for name, rel, key, tr in (("make Fourati.update read self.acc", F + "fourati.py", "fourati.py::Fourati", read_data("Fourati", "update")),
                               ("swap gyr/acc in ROLEQ's batch loop", F + "roleq.py", "roleq.py::ROLEQ", swap_args("ROLEQ"))):
        try:
            p2 = prog.mutated(rel, tr)
            sub = Check("C06", chk.tier, p2, quiet=True)
            check_class(sub, p2, key, STREAMING[key])
            chk.canary(name, bool(sub.findings), "%d findings" % len(sub.findings))
        except Exception as e:
            chk.canary(name, False, "canary crashed: %s: %s" % (type(e).__name__, e))


def run(chk, prog, tier):
    # batch estimators without a streaming method (OLEQ, FLAE, QUEST ...): their N-sample arm must produce its rows through estimate() (rule shared with C07;
    # a vectorised re-implementation that is not twin-proved gets no verdict rather than a silent pass)
    from props.c07 import rowwise_rule as _rowwise_rule
    _rowwise_rule(chk, prog)
    from props.c13 import recomputed_rule
    recomputed_rule(chk, prog)
    for key, methods in STREAMING.items():
        check_class(chk, prog, key, methods)
    isolation(chk, prog)
    determinism(chk, prog)
    chk.require_count("NO-DATA-READ", 11)
    chk.require_count("PROTOCOL", 11)      # one per (class, streaming method); EKF may serve both sensor arms from one loop
    chk.require_count("ARG-HONOURED", 10)
    canaries(chk, prog)
    return __doc__
