"""C20 — synthetic sensor data agree with their own ground truth.

Decided:
 GENERATE (AVN, exact)  interpreting Sensors.generate with symbolic rotations, reference vectors, noise levels, random
             draws and bias: row i of accelerometers / magnetometers(_nd,_enu) is rotations[i]^T @ <reference attribute>
             plus (standard-normal draw) x (the constructor's noise level) on every arm of every data-dependent branch;
             the gyroscopes are ang_vel (in the requested unit) + bias + draw x gyr_noise, and the coefficient of the bias
             in the gyroscopes equals the coefficient in the reported biases_gyroscopes for in_degrees True and False;
 CONFIG-FROZEN  generate() never assigns a configuration attribute (noise levels, references, frequency, flags);
 GROUND-TRUTH  at the end of __init__: rotations is quaternions.to_DCM(), ang_pos and the angular velocities are computed
             from the same quaternions, and quaternions is QuaternionArray(<given>) / QuaternionArray(rpy=ang_pos) with no
             in-place modification afterwards;
 ZERO-OPTION   numeric options whose range contains 0 are read with kwargs.get(name, default), never ``get(name) or default``.
Not decided: that integrating the gyroscopes reproduces the trajectory (numerical), the random trajectory generator.
Added after the seeding rounds (DESIGN.md 6.6-6.8):
 GROUND-TRUTH.dt / .yaw / .align and the same-source rule: time step 1/frequency, yaw in degrees converted with DEG2RAD, the N-1 rates follow one leading row.
Added after seeding rounds 5 and 6 and refactoring round 4 (DESIGN.md 6.10-6.12):
 GROUND-TRUTH.angles by interpretation; ANGVEL / ANGVEL.gate shared with C08.
"""
import ast
import numpy as np
from sa import poly as P
from sa.facts import Facts
from sa.model import stmt_text
from sa.symeval import Interp, sym_vec, sym_mat, to_obj, Obj, Undecided
from sa.lib import eq, all_of

SENS = "ahrs/utils/sensors.py"
CONFIG = {"gyr_noise", "acc_noise", "mag_noise", "frequency", "in_degrees", "normalized_mag",
          "reference_gravitational_vector", "reference_magnetic_vector", "num_samples"}


class _Gen:
    """stand-in for numpy's Generator: every draw is a vector of fresh symbols"""
    _avn_native = True

    def __init__(self):
        self.draws = []

    def _mk(self, kind, shape):
        shape = (int(shape),) if not isinstance(shape, tuple) else tuple(int(s) for s in shape)
        k = len(self.draws)
        out = np.empty(shape, dtype=object)
        for idx in np.ndindex(shape):
            out[idx] = P.sym("%s%d_%s" % (kind, k, "".join(map(str, idx))))
        self.draws.append((kind, out))
        return out

    def random(self, n):
        return self._mk("u", n)

    def standard_normal(self, shape):
        return self._mk("N", shape)


def generate_avn(chk, prog):
    f = prog.func(SENS + "::Sensors.generate")
    chk.touch(f)
    mod = prog.module(SENS)
    n = 2
    for in_deg in (False, True):
        for branch in (False, True):       # every data-dependent comparison takes this value (both arms explored)
            label = "in_degrees=%s, data-dependent branches=%s" % (in_deg, branch)
            gen = _Gen()
            ptp = P.sym("ptp")
            wmmI = P.sym("dipI")

            def mk():
                it = Interp(prog, oracle=lambda c, i: branch if c.op in ("<", ">", "<=", ">=") else None,
                            config={"globals": {(SENS, "GENERATOR"): gen, (SENS, "wmm"): _Obj(I=wmmI, geodetic_vector=sym_vec("wmmvec", 3))}},
                            intercepts={"np.ptp": lambda i, a, k: ptp})
                R = np.stack([sym_mat("R%d_" % k, 3, 3) for k in range(n)])
                obj = it.make_obj(SENS + "::Sensors", num_samples=n, in_degrees=in_deg, normalized_mag=False,
                                  ang_vel=np.vstack([sym_vec("w%d_" % k, 3) for k in range(n)]),
                                  reference_gravitational_vector=sym_vec("gref", 3), reference_magnetic_vector=sym_vec("mref", 3),
                                  gyr_noise=sym_vec("gyrnoise", 3), acc_noise=P.sym("accnoise"), mag_noise=P.sym("magnoise"),
                                  accelerometers=np.full((n, 3), P.ZERO, dtype=object), magnetometers=np.full((n, 3), P.ZERO, dtype=object),
                                  magnetometers_nd=np.full((n, 3), P.ZERO, dtype=object), magnetometers_enu=np.full((n, 3), P.ZERO, dtype=object),
                                  gyroscopes=None)
                it.run(f, [R], self_obj=obj)
                return it, obj, R
            holder = {}

            def get():
                if "r" not in holder:
                    holder["r"] = mk()
                return holder["r"]

            def draws(kind):
                return [a for k, a in gen.draws if k == kind]
            kw = dict(module=SENS, function="Sensors.generate", line=f.node.lineno)

            def acc_law():
                it, obj, R = get()
                N = draws("N")
                # order of draws in the source: gyr, acc, mag, mag_nd, mag_enu
                want = np.stack([R[k].T @ obj.attrs["reference_gravitational_vector"] for k in range(n)]) + N[1] * P.sym("accnoise")
                return eq(obj.attrs["accelerometers"], want, "accelerometers")
            chk.ob("GENERATE.acc", SENS + "::Sensors.generate::acc[%s]" % label, "accelerometers[i] == R[i]^T g_ref + draw * acc_noise", acc_law,
                   construct="accelerometers [%s]" % label, **kw)

            def mag_law():
                it, obj, R = get()
                N = draws("N")
                ref = obj.attrs["reference_magnetic_vector"]
                w1 = np.stack([R[k].T @ ref for k in range(n)]) + N[2] * P.sym("magnoise")
                ref_enu = np.array([ref[1], ref[0], -ref[2]], dtype=object)
                w3 = np.stack([R[k].T @ ref_enu for k in range(n)]) + N[4] * P.sym("magnoise")
                from sa.lib import DEG2RAD_of
                D = DEG2RAD_of(it, mod)
                ref_nd = np.array([P.cos(wmmI * D), P.ZERO, P.sin(wmmI * D)], dtype=object)
                w2 = np.stack([R[k].T @ ref_nd for k in range(n)]) + N[3] * P.sym("magnoise")
                return all_of(eq(obj.attrs["magnetometers"], w1, "magnetometers"), eq(obj.attrs["magnetometers_enu"], w3, "magnetometers_enu"),
                              eq(obj.attrs["magnetometers_nd"], w2, "magnetometers_nd"))
            chk.ob("GENERATE.mag", SENS + "::Sensors.generate::mag[%s]" % label, "magnetometers*[i] == R[i]^T m_ref* + draw * mag_noise", mag_law,
                   construct="magnetometers [%s]" % label, **kw)

            def gyr_law():
                it, obj, R = get()
                from sa.lib import DEG2RAD_of
                D = DEG2RAD_of(it, mod)
                N = draws("N")
                bias_rep = obj.attrs["biases_gyroscopes"]
                gyr = obj.attrs["gyroscopes"]
                w = np.vstack([sym_vec("w%d_" % k, 3) for k in range(n)])
                unit = P.ONE if in_deg else D
                want = (w * (180 / P.PI) + N[0] * obj.attrs["gyr_noise"]) * unit + bias_rep
                return eq(gyr, want, "gyroscopes")
            chk.ob("GENERATE.gyr", SENS + "::Sensors.generate::gyr[%s]" % label,
                   "gyroscopes == (ang_vel[deg] + draw * gyr_noise) * unit + reported bias", gyr_law, construct="gyroscopes vs reported bias [%s]" % label, **kw)


class _Obj:
    _avn_native = True

    def __init__(self, **kw):
        self.__dict__.update(kw)


def config_frozen(chk, prog):
    cls = prog.cls(SENS + "::Sensors")
    for f in cls.methods.values():
        if f.name == "__init__":
            continue
        chk.touch(f)
        bad = 0
        for n in ast.walk(f.node):
            if isinstance(n, (ast.Assign, ast.AugAssign, ast.AnnAssign)):
                targets = n.targets if isinstance(n, ast.Assign) else [n.target]
                for t in targets:
                    for tt in (t.elts if isinstance(t, ast.Tuple) else [t]):
                        if isinstance(tt, ast.Attribute) and isinstance(tt.value, ast.Name) and tt.value.id == "self" and tt.attr in CONFIG:
                            bad += 1
                            chk.finding("CONFIG-FROZEN", SENS, f.qname, "self.%s assigned: %s" % (tt.attr, stmt_text(n)),
                                        "%s overwrites the configuration attribute %s: the reported setting is not the one the user requested, and the data are generated with another value" % (f.qname, tt.attr),
                                        line=n.lineno)
        chk.record("CONFIG-FROZEN", f.ref, "no configuration attribute is assigned", verdict="HOLDS" if not bad else "VIOLATION")


def ground_truth(chk, prog):
    f = prog.func(SENS + "::Sensors.__init__")
    chk.touch(f)

    class G(Facts):
        def bind(self2, t, value_node, val, st, stmt):
            # in-place stores through self.<attr>.<...>[...] change the attribute's value
            if isinstance(t, ast.Subscript):
                root = t.value
                while isinstance(root, (ast.Attribute, ast.Subscript)) and not (isinstance(root, ast.Attribute) and isinstance(root.value, ast.Name) and root.value.id == "self"):
                    root = root.value
                if isinstance(root, ast.Attribute) and isinstance(root.value, ast.Name) and root.value.id == "self":
                    st["s:" + root.attr] = self2.fresh("inplace", stmt)
                    return
            super().bind(t, value_node, val, st, stmt)
    writes = {"quaternions": [], "ang_vel": []}

    def self_write(fa_, attr, stmt, st):
        if attr in writes:
            writes[attr].append((st.get("s:" + attr), stmt))
    fa = G(f, prog, callbacks={"self_write": self_write}).analyse()

    def first_arg(vn, head):
        i = vn.find(head)
        if i < 0:
            return None
        depth, out = 0, ""
        for ch in vn[i + len(head):]:
            if ch in "([":
                depth += 1
            elif ch in ")]":
                if depth == 0:
                    break
                depth -= 1
            elif ch == "," and depth == 0:
                break
            out += ch
        return out
    src_q = {first_arg(v, "QuaternionArray(rpy=") for v, _ in writes["quaternions"] if v and "QuaternionArray(rpy=" in v}
    src_w = {first_arg(v, "self.angular_velocities(") for v, _ in writes["ang_vel"] if v and "self.angular_velocities(" in v}
    site = f.ref + "::random trajectory"
    if not src_q or not src_w:
        chk.error("GROUND-TRUTH: random-trajectory arm of Sensors.__init__ not recognised (quaternions from rpy=%s, ang_vel from %s)" % (sorted(src_q), sorted(src_w)))
    elif src_q == src_w:
        chk.record("GROUND-TRUTH", site, "quaternions and angular velocities are computed from the same angular positions (same value number, after every override)")
    else:
        why = "the quaternions are built from the angular positions %s but the angular velocities from %s: an override applied in between (e.g. the fixed yaw) reaches only one of them" % (sorted(src_q), sorted(src_w))
        chk.record("GROUND-TRUTH", site, "quaternions and ang_vel derive from the same angular positions", verdict="VIOLATION", detail=why)
        chk.finding("GROUND-TRUTH", SENS, "Sensors.__init__", "ang_vel and quaternions computed from different states of ang_pos", why, line=writes["ang_vel"][0][1].lineno)
    exits = [st for _, st in fa.returns if st is not None]
    if not exits:
        chk.error("GROUND-TRUTH: Sensors.__init__ has no normal exit")
        return
    from sa.facts import PHI
    for st in exits:
        q = st.get("s:quaternions")
        members = PHI.get(q, {q})
        ok_q = all(m in ("QuaternionArray(P:quaternions)",) or (m or "").startswith("QuaternionArray(") for m in members) and not any("inplace" in (m or "") for m in members)
        site = f.ref + "::self.quaternions"
        if ok_q:
            chk.record("GROUND-TRUTH", site, "quaternions is QuaternionArray(<given>) or QuaternionArray(rpy=ang_pos), never modified in place")
        else:
            chk.record("GROUND-TRUTH", site, "quaternions is the constructor's array", verdict="VIOLATION", detail=str(sorted(members)))
            chk.finding("GROUND-TRUTH", SENS, "Sensors.__init__", "self.quaternions modified after construction",
                        "the ground-truth quaternions are changed in place (or rebuilt) after being wrapped: sensors, rotations and angular velocities no longer describe the given trajectory",
                        line=f.node.lineno)
        rot = st.get("s:rotations")
        site = f.ref + "::self.rotations"
        if rot == "%s.to_DCM()" % q:
            chk.record("GROUND-TRUTH", site, "rotations == quaternions.to_DCM()")
        else:
            chk.record("GROUND-TRUTH", site, "rotations == quaternions.to_DCM()", verdict="VIOLATION", detail="%s vs %s" % (rot, q))
            chk.finding("GROUND-TRUTH", SENS, "Sensors.__init__", "self.rotations is not self.quaternions.to_DCM()", "rotations value-numbers to %s" % rot, line=f.node.lineno)
    # generate is called with self.rotations
    calls = [n for n in ast.walk(f.node) if isinstance(n, ast.Call) and ast.unparse(n.func) == "self.generate"]
    def _gen_arg(c_):
        a_ = list(c_.args) + [k.value for k in c_.keywords]
        return ast.unparse(a_[0]) if len(a_) == 1 else None
    if len(calls) == 1 and _gen_arg(calls[0]) == "self.rotations":
        chk.record("GROUND-TRUTH", f.ref + "::generate", "generate() receives self.rotations")
    elif len(calls) != 1 or _gen_arg(calls[0]) is None or not _gen_arg(calls[0]).startswith("self."):
        chk.error("GROUND-TRUTH: the call self.generate(<rotations>) of Sensors.__init__ is not in the recognised form (cannot decide): %s" % [ast.unparse(c_)[:60] for c_ in calls])
    else:
        chk.finding("GROUND-TRUTH", SENS, "Sensors.__init__", "generate not called with self.rotations", "sensor data are generated from other rotations than the reported ones", line=f.node.lineno)
    # the given-quaternion arm derives angular positions and velocities from the same object
    txt = ast.unparse(f.node)
    for need in ("self.quaternions.angular_velocities(1 / self.frequency)",):
        if need in txt:
            chk.record("GROUND-TRUTH", f.ref + "::" + need, "derived from the stored quaternions")
        else:
            chk.error("GROUND-TRUTH: `%s` not found in Sensors.__init__ (anchor changed)" % need)
    # angular positions of a given trajectory: quaternions.to_angles(), or an expression of the stored quaternions / rotations that is PROVED equal to it
    # (interpreted on two symbolic unit rows; SO(3) gates of intermediate constructors answered true)
    derived = [s for s in ast.walk(f.node) if isinstance(s, ast.Assign) and len(s.targets) == 1 and ast.unparse(s.targets[0]) == "self.ang_pos"
               and any(k in ast.unparse(s.value) for k in ("self.quaternions", "self.rotations"))]
    if not derived:
        chk.error("GROUND-TRUTH: no assignment of self.ang_pos from the stored quaternions / rotations found in Sensors.__init__ (anchor changed)")
    for s in derived:
        site = f.ref + "::" + stmt_text(s)[:60]
        if ast.unparse(s.value) == "self.quaternions.to_angles()":
            chk.record("GROUND-TRUTH", site, "angular positions are quaternions.to_angles()")
            continue

        def law(s=s):
            from sa.symeval import Env, unit_syms
            from sa.lib import quat_obj
            QUAT_ = "ahrs/common/quaternion.py"
            it = Interp(prog, oracle=lambda c, i: True if c.op in ("isclose", "allclose") and i.func_stack and "SO3" in i.func_stack[-1].name else None)
            rows = [unit_syms("gta"), unit_syms("gtb")]
            qa = quat_obj(it, np.vstack(rows), cls="QuaternionArray")
            rot = it.run(prog.func(QUAT_ + "::QuaternionArray.to_DCM"), [], self_obj=qa)
            obj = it.make_obj(SENS + "::Sensors", quaternions=qa, rotations=rot, num_samples=2, frequency=P.sym("freq"))
            env = Env(f.module, f)
            env.vars["self"] = obj
            got = to_obj(it.eval(s.value, env))
            want = [to_obj(it.run(prog.func(QUAT_ + "::Quaternion.to_angles"), [], self_obj=quat_obj(it, r_))) for r_ in rows]
            return all_of(*[eq(got[i], want[i], "ang_pos[%d] vs Quaternion(row %d).to_angles()" % (i, i)) for i in range(2)])
        chk.ob("GROUND-TRUTH.angles", site, "the angular positions computed by `%s` are the roll-pitch-yaw angles of the stored quaternions" % ast.unparse(s.value)[:50], law,
               module=SENS, function="Sensors.__init__", construct="angular positions of the given trajectory", line=s.lineno)


def sampling_step(chk, prog):
    """GROUND-TRUTH.dt: the gyroscopes are the quaternion differences divided by the sampling step.  Every call of QuaternionArray.angular_velocities made by
    Sensors receives 1/<the instance's or the caller's frequency> (value numbers), and the yaw override converts degrees to radians by multiplying with DEG2RAD."""
    cls = prog.cls(SENS + "::Sensors")
    n = 0
    for m in cls.methods.values():
        hits = []

        def on_call(fa, node, st, hits=hits):
            if isinstance(node.func, ast.Attribute) and node.func.attr == "angular_velocities" and not (isinstance(node.func.value, ast.Name) and node.func.value.id == "self") and node.args:
                hits.append((node, fa.vn(node.args[0], st)))
        if not any(isinstance(x, ast.Attribute) and x.attr == "angular_velocities" for x in ast.walk(m.node)):
            continue
        Facts(m, prog, callbacks={"call": on_call}).analyse()
        for node, vn in hits:
            n += 1
            site = "%s::%s" % (m.ref, ast.unparse(node)[:60])
            import re as _re
            if _re.fullmatch(r"Div\(c:1(\.0)?,(P:freq\w*|S:frequency)\)", vn):
                chk.record("GROUND-TRUTH.dt", site, "time step handed to QuaternionArray.angular_velocities is 1/frequency")
            else:
                why = "the time step handed to QuaternionArray.angular_velocities value-numbers to %s, not 1/frequency: the gyroscopes are scaled wrongly and their integral no longer follows the trajectory" % vn[:60]
                chk.record("GROUND-TRUTH.dt", site, "time step is 1/frequency", verdict="VIOLATION", detail=why)
                chk.finding("GROUND-TRUTH.dt", SENS, m.qname, "angular_velocities(%s)" % ast.unparse(node.args[0])[:40], why, line=node.lineno)
    if n < 2:
        chk.error("GROUND-TRUTH.dt: %d calls of QuaternionArray.angular_velocities found in Sensors, 2 confirmed by hand" % n)
    # yaw override: degrees -> radians
    f = prog.func(SENS + "::Sensors.__init__")
    stores = []

    def on_store(fa, target, stmt, st):
        if "ang_pos" in ast.unparse(target.value) and getattr(stmt, "value", None) is not None and "yaw" in ast.unparse(stmt.value):
            stores.append((stmt, fa.vn(stmt.value, st)))
    Facts(f, prog, callbacks={"store": on_store}).analyse()
    for stmt, vn in stores:
        site = f.ref + "::" + stmt_text(stmt)[:60]
        if vn.startswith("Mult(") and "DEG2RAD" in vn and "Div(" not in vn:
            chk.record("GROUND-TRUTH.yaw", site, "the requested yaw (degrees) is stored as yaw * DEG2RAD")
        else:
            why = "the yaw override stores %s: the documented unit of `yaw` is degrees and the angular positions are radians, so it must be multiplied by DEG2RAD" % vn[:60]
            chk.record("GROUND-TRUTH.yaw", site, "yaw stored as yaw * DEG2RAD", verdict="VIOLATION", detail=why)
            chk.finding("GROUND-TRUTH.yaw", SENS, "Sensors.__init__", "yaw override unit conversion", why, line=stmt.lineno)


def rate_alignment(chk, prog):
    """GROUND-TRUTH.align: QuaternionArray.angular_velocities returns the N-1 rates that take sample t to sample t+1; the gyroscope array has N rows and the
    filters (and the property's integration) use row t to go from attitude t-1 to attitude t.  The N-1 rates must therefore follow ONE leading row
    (np.r_[<row>, rates] / np.vstack((<row>, rates))); padding at the end shifts every rate by one sample."""
    cls = prog.cls(SENS + "::Sensors")
    n = 0
    for m in cls.methods.values():
        defs = {}
        for s_ in ast.walk(m.node):
            if isinstance(s_, ast.Assign) and isinstance(s_.targets[0], ast.Name):
                defs[s_.targets[0].id] = s_.value

        def is_rates(e, depth=0):
            if isinstance(e, ast.Name) and e.id in defs and depth < 3:
                return is_rates(defs[e.id], depth + 1)
            return isinstance(e, ast.Call) and isinstance(e.func, ast.Attribute) and e.func.attr == "angular_velocities" and not (isinstance(e.func.value, ast.Name) and e.func.value.id == "self")
        for x in ast.walk(m.node):
            parts = None
            if isinstance(x, ast.Subscript) and ast.unparse(x.value) in ("np.r_", "numpy.r_") and isinstance(x.slice, ast.Tuple):
                parts = x.slice.elts
            elif isinstance(x, ast.Call) and ast.unparse(x.func).split(".")[-1] in ("vstack", "concatenate", "row_stack") and x.args and isinstance(x.args[0], (ast.Tuple, ast.List)):
                parts = x.args[0].elts
            if not parts or not any(is_rates(p_) for p_ in parts):
                continue
            n += 1
            site = "%s::%s" % (m.ref, ast.unparse(x)[:60])
            idx = [i for i, p_ in enumerate(parts) if is_rates(p_)]
            if len(parts) == 2 and idx == [1]:
                chk.record("GROUND-TRUTH.align", site, "one leading row, then the N-1 rates: row t takes attitude t-1 to attitude t")
            else:
                why = "the N-1 angular velocities are stacked as %s: they must follow exactly one leading row, otherwise gyroscope row t no longer describes the motion from sample t-1 to t " \
                      "and integrating the gyroscopes runs one sample ahead of (or behind) the ground truth" % ast.unparse(x)[:70]
                chk.record("GROUND-TRUTH.align", site, "rates follow one leading row", verdict="VIOLATION", detail=why)
                chk.finding("GROUND-TRUTH.align", SENS, m.qname, "stacking of the angular velocities", why, line=x.lineno)
    if n < 2:
        chk.error("GROUND-TRUTH.align: %d stackings of QuaternionArray.angular_velocities found in Sensors, 2 confirmed by hand" % n)


def zero_option(chk, prog):
    f = prog.func(SENS + "::Sensors.__init__")
    n = 0
    for s in ast.walk(f.node):
        if isinstance(s, ast.Assign) and isinstance(s.targets[0], ast.Attribute) and s.targets[0].attr in ("gyr_noise", "acc_noise", "mag_noise"):
            n += 1
            v = s.value
            ok = isinstance(v, ast.Call) and ast.unparse(v.func) == "kwargs.get" and len(v.args) == 2
            site = f.ref + "::self." + s.targets[0].attr
            if ok:
                chk.record("ZERO-OPTION", site, "read with kwargs.get(name, default)")
            else:
                chk.record("ZERO-OPTION", site, "read with kwargs.get(name, default)", verdict="VIOLATION")
                chk.finding("ZERO-OPTION", SENS, "Sensors.__init__", stmt_text(s),
                            "the noise option is not read as kwargs.get(name, default): a falsy-test (`or`) replaces an explicit 0 by the default, so zero noise cannot be requested", line=s.lineno)
    if n < 3:
        chk.error("ZERO-OPTION: found %d noise options in Sensors.__init__, 3 confirmed by hand" % n)


def canaries(chk, prog):
    from sa.report import Check

    def override(tree):
        for n in ast.walk(tree):
            if isinstance(n, ast.FunctionDef) and n.name == "generate":
                for i, s in enumerate(n.body):
                    if isinstance(s, ast.AugAssign) and "standard_normal" in ast.unparse(s.value):
                        n.body.insert(i, ast.parse("if self.acc_noise < np.ptp(self.accelerometers):\n    self.acc_noise = 0.1").body[0])
                        return True
        return False

    def transpose(tree):
        for n in ast.walk(tree):
            if isinstance(n, ast.FunctionDef) and n.name == "generate":
                for s in ast.walk(n):
                    if isinstance(s, ast.Assign) and "self.magnetometers[i]" in ast.unparse(s.targets[0]):
                        s.value = ast.parse("rotations[i] @ self.reference_magnetic_vector").body[0].value
                        return True
        return False
    for name, tr, fns in (("overwrite acc_noise in generate", override, (generate_avn, config_frozen)), ("drop the transpose in one magnetometer row", transpose, (generate_avn,))):
        try:
            p2 = prog.mutated(SENS, tr)
            sub = Check("C20", chk.tier, p2, quiet=True)
            for fn in fns:
                fn(sub, p2)
            chk.canary(name, bool(sub.findings), "%d findings (%s)" % (len(sub.findings), ",".join(sorted({f.rule for f in sub.findings}))))
        except Exception as e:
            chk.canary(name, False, "crashed: %s: %s" % (type(e).__name__, e))


def run(chk, prog, tier):
    # the random-trajectory arm reports ang_pos next to QuaternionArray(rpy=ang_pos): they describe the same attitudes iff the
    # array constructor and to_angles are mutually inverse (same obligation as C10's RPY, array route)
    from props.c10 import rpy as _rpy
    _rpy(chk, prog, only={"QuaternionArray"})
    generate_avn(chk, prog)
    config_frozen(chk, prog)
    ground_truth(chk, prog)
    zero_option(chk, prog)
    sampling_step(chk, prog)
    rate_alignment(chk, prog)
    # the gyroscopes of a given trajectory are QuaternionArray.angular_velocities(dt): its formula and the absence of a motion threshold are C08's rule, shared
    from props.c08 import angvel
    angvel(chk, prog)
    chk.require_count("GENERATE.acc", 4)
    canaries(chk, prog)
    return __doc__
