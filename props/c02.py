"""C02 — every DCM->quaternion method inverts quaternion->DCM over all of SO(3).

Decided:
 INVERT     (AVN exact) binding dcm := E(q) for a symbolic unit quaternion q, the quaternion q' each method returns on
            each of its arms reproduces the matrix: E(q'/|q'|) == E(q).  Arms: shepperd x4 (pivot index), chiaverini 3x3 and
            Nx3x3, hughes 3x3 generic arm and Nx3x3, sarabandi for all 2^4 threshold arms x sign arm (thorough: all 32,
            quick: 6), itzhack through the eigen-identity K(E(q)) u == u for the vector u the code turns into q, K symmetric;
 PIVOT      shepperd: the array whose argmax selects the arm is [trace, r11, r22, r33] and arm i divides by d with
            d^2 == 1 + 2 u[i] - u[0] (i >= 1) / 1 + u[0] (i = 0); since u[i] is then the largest entry, d^2 >= 1, which is what
            makes the default method valid at exact half-turns and at the identity;
 UNIT/REAL  every return path of the five functions and three dispatchers is a unit, real quaternion (FACTS);
 DISPATCH   the three dispatchers agree (shared with C07);
 NO-SIGN-ZERO the routes that must be exact at half-turns (shepperd, itzhack, the dispatchers) never scale by np.sign(.),
            which is 0 for a vanishing scalar part;
 BAND       identity shortcuts by tolerance (``isclose(trace, 3)``) must have an empty band: the closed-form methods are
            required to be right for angles arbitrarily close to zero.
Not decided: numerical accuracy near thresholds, sign(0) at exact half-turns for the closed-form methods (outside the
stated domain), LAPACK's eigenvector accuracy.
Added after the seeding rounds (DESIGN.md 6.6-6.8):
 BAND.gate / INVERT.sample  every tolerance gate is mapped to the rotation-angle band it captures (must lie outside the stated domain);
            each method inverts E(q) on the decision path taken by six kinds of sample rotation (exact closed forms of that path);
 DOMAIN-GUARD  interval analysis: every sqrt argument of chiaverini is provably non-negative.
Added after seeding rounds 5 and 6 and refactoring round 4 (DESIGN.md 6.10-6.12):
 INVERT.post  the eigenvector -> quaternion step interpreted with a symbolic eigen-solver; the NaN echo recognised by shape.
"""
import ast
import itertools
import numpy as np
from sa import poly as P
from sa.facts import Facts
from sa.model import stmt_text
from sa.symeval import Interp, sym_vec, to_obj, unit_syms, Stop, Cond
from sa.lib import eq, all_of, I, ORI, QUAT, DCM, E_ref, isclose_band, trace_band_angle


def inverts(qp, q, what):
    qp = to_obj(qp)
    return eq(E_ref(qp), E_ref(q), "E(%s)" % what)


def shepperd(chk, prog):
    """every decision path of the arm selection: inversion, and the divisor is built from the selected (largest) entry"""
    from sa.lib import enumerate_paths
    f = prog.func(ORI + "::shepperd")
    chk.touch(f)
    q = unit_syms("sq")
    R = E_ref(q)
    tr = R[0, 0] + R[1, 1] + R[2, 2]
    diag = [R[0, 0], R[1, 1], R[2, 2]]
    kw = dict(module=ORI, function="shepperd", line=f.node.lineno)
    holder = {}

    def run(oracle):
        it = Interp(prog, oracle=oracle)
        out = it.run(f, [R.copy()])
        return out, it.last_env.vars.get("d")
    paths = enumerate_paths(run)
    if len(paths) < 4:
        chk.error("shepperd: only %d selection paths found, 4 confirmed by hand" % len(paths))
    for decisions, res in paths:
        label = ", ".join("%s->%s" % (("argmax" if c.op == "argmax" else "%s %s %s" % (str(c.lhs)[:30], c.op, c.rhs)), a) for c, a in decisions) or "unconditional"
        if isinstance(res, Exception):
            chk.ob("INVERT", f.ref + "::path " + label, "path analysable", lambda res=res: (_ for _ in ()).throw(res), construct="path " + label, **kw)
            continue
        out, d = res
        chk.ob("INVERT", f.ref + "::path " + label, "E(shepperd(E(q))) == E(q) on the path [%s]" % label, lambda out=out, label=label: inverts(out, q, "shepperd"),
               construct="inversion on path [%s]" % label, **kw)

        def pivot(decisions=decisions, d=d):
            if d is None:
                return (None, "local divisor `d` not found")
            last = decisions[-1] if decisions else None
            if last is None:
                return (False, "the arm is not selected by the size of the entries")
            c, a = last
            if c.op == "argmax":
                u = np.asarray(to_obj(c.lhs), dtype=object)
                sel = u[a]
                if sel.same(tr):
                    return eq(d * d, 1 + tr, "d^2 (trace is the largest entry)")
                for r_ in diag:
                    if sel.same(r_):
                        return eq(d * d, 1 + 2 * r_ - tr, "d^2 (selected diagonal entry is the largest)")
                return (False, "argmax is taken over something other than the trace and the diagonal entries")
            if c.op in (">", ">=") and a is True and c.lhs.same(tr) and c.rhs.const() is not None and c.rhs.const() >= 0:
                return eq(d * d, 1 + tr, "d^2 (trace positive)")
            return (False, "arm selected by `%s` = %s: the divisor is not tied to the largest entry" % (c, a))
        chk.ob("PIVOT", f.ref + "::path " + label, "the divisor d satisfies d^2 == 1 + 2 m - trace for the selected largest entry m (or 1 + trace)", pivot,
               construct="pivot rule on path [%s]" % label, **kw)


def chiaverini_hughes(chk, prog):
    q, q2 = unit_syms("sq"), unit_syms("sr")
    R, R2 = E_ref(q), E_ref(q2)
    for name in ("chiaverini", "hughes"):
        f = prog.func(ORI + "::" + name)
        chk.touch(f)
        kw = dict(module=ORI, function=name, line=f.node.lineno)

        def oracle(c, it):
            if c.op in ("isclose", "allclose"):
                return False
            if c.op == ">":
                return True           # hughes: n > 0 (scalar part positive on the generic arm)
            if c.op == ">=":
                return False          # hughes: trace >= 3 only for the exact identity
            if c.op == "nonzero":
                return True
            return None
        chk.ob("INVERT", f.ref + "::3x3", "E(%s(E(q))) == E(q) (3x3 arm)" % name, lambda f=f, name=name: inverts(Interp(prog, oracle=oracle).run(f, [R.copy()]), q, name), construct="inversion 3x3", **kw)

        def batch(f=f, name=name):
            out = to_obj(Interp(prog, oracle=oracle).run(f, [np.stack([R, R2])]))
            return all_of(inverts(out[0], q, name + "[0]"), inverts(out[1], q2, name + "[1]"))
        chk.ob("INVERT", f.ref + "::Nx3x3", "E(%s(E(Q))[i]) == E(Q[i]) (Nx3x3 arm)" % name, batch, construct="inversion Nx3x3", **kw)


SAMPLES = {
    "generic": (0.3, -0.4, 0.5),
    "dominant x": (0.85, 0.2, -0.3), "dominant y": (-0.25, 0.85, 0.3), "dominant z": (0.25, -0.3, -0.85),
    "near half-turn, negative leading axis component": (-0.8, 0.36, None),        # z completes the unit vector for w = 5e-5
    "near identity": (1e-4, -2e-4, 1.5e-4),
}


def _more_samples(n=24):
    """deterministic extra rotations for the thorough tier: a low-discrepancy sweep of the axis and of the angle, including angles close to pi"""
    import math
    out = {}
    for k in range(n):
        t = math.pi * (0.02 + 0.96 * ((k * 0.6180339887) % 1.0)) if k % 6 else math.pi - 10 ** (-2 - (k // 6))
        zc = 1 - 2 * ((k * 0.7548776662) % 1.0)
        ph = 2 * math.pi * ((k * 0.5698402910) % 1.0)
        ax = (math.sqrt(1 - zc * zc) * math.cos(ph), math.sqrt(1 - zc * zc) * math.sin(ph), zc)
        s_ = math.sin(t / 2)
        out["sweep %02d (angle %.4f rad)" % (k, t)] = (ax[0] * s_, ax[1] * s_, ax[2] * s_)
    return out


def sample_arms(chk, prog, names=("shepperd", "hughes", "chiaverini", "sarabandi"), tier="quick"):
    """INVERT.sample: each method, run on E(q) along the single decision path that a sample rotation takes (dominant component, almost a half-turn with a negative
    leading axis component, almost the identity ...), returns a quaternion whose matrix is E(q) -- as exact closed forms of that path.  Whatever thresholds and
    pivots the code uses, the arm a realistic rotation of each kind reaches is decided."""
    from sa.lib import sample_oracle
    import math
    q = unit_syms("sq")
    R = E_ref(q)
    for name in names:
        f = prog.func(ORI + "::" + name)
        chk.touch(f)
        pool = dict(SAMPLES)
        if tier == "thorough":
            pool.update(_more_samples())
        for label, (x_, y_, z_) in pool.items():
            if z_ is None:
                w_ = 5e-5
                z_ = math.sqrt(max(0.0, 1 - w_ * w_ - x_ * x_ - y_ * y_))
            else:
                w_ = math.sqrt(1 - x_ * x_ - y_ * y_ - z_ * z_)
            if name in ("hughes", "chiaverini", "sarabandi") and label.startswith("near half-turn") and name != "sarabandi":
                pass
            vals = {"sqw": w_, "sqx": x_, "sqy": y_, "sqz": z_}

            def law(f=f, vals=vals, name=name, label=label):
                out = Interp(prog, oracle=sample_oracle(vals)).run(f, [R.copy()])
                return inverts(out, q, "%s [%s]" % (name, label))
            chk.ob("INVERT.sample", "%s::%s" % (f.ref, label), "E(%s(E(q))) == E(q) on the path taken by a rotation that is %s" % (name, label), law,
                   module=ORI, function=name, construct="inversion on the arm of a sample rotation [%s]" % label, line=f.node.lineno)


def gate_bands(chk, prog, pid="C02", names=("hughes", "chiaverini"), limit_pi=1e-6, limit_0=1e-12):
    """BAND.gate: every np.isclose/np.allclose gate met by the closed-form methods on E(q), mapped to the rotation-angle band it captures.
    A gate closing at the half-turn may only capture angles beyond the stated domain (pi - 1e-6); one closing at the identity must be (almost) empty."""
    from sa.lib import collect_gates, gate_angle_band
    q, q2 = unit_syms("sq"), unit_syms("sr")
    R, R2 = E_ref(q), E_ref(q2)
    qn = [str(x) for x in q]
    out = {}
    for name in names:
        f = prog.func(ORI + "::" + name)
        for arm, args in (("3x3", lambda: [R.copy()]), ("Nx3x3", lambda: [np.stack([R, R2])])):
            try:
                gates = collect_gates(lambda oracle, f=f, args=args: Interp(prog, oracle=oracle).run(f, args()))
            except Exception as e:
                chk.error("BAND.gate: %s %s arm not analysable: %s: %s" % (name, arm, type(e).__name__, str(e)[:80]))
                continue
            bands = []
            seen = set()
            for lhs, rhs, rtol, atol in gates:
                b = gate_angle_band(lhs, rhs, rtol, atol, qn)
                if b == "foreign":
                    continue        # second row of the batch: same code, same gate
                key = (str(lhs)[:60], str(rhs))
                if key in seen:
                    continue
                seen.add(key)
                site = "%s::%s::isclose(%s, %s)" % (f.ref, arm, str(lhs)[:40], rhs)
                if b is None:
                    chk.record("BAND.gate", site, "gate does not close at the identity or at the half-turn (not a limit shortcut)")
                    continue
                limit, width, p_, k_ = b
                bands.append((limit, width))
                bound = limit_pi if limit == "pi" else limit_0
                if width > bound:
                    why = "the gate |%s - %s| <= %.3g is taken for every rotation within %.3e rad of %s (residual ~ %.3g s^%s): the stated domain needs it below %.1e rad" \
                          % (str(lhs)[:40], rhs, (atol + rtol * abs(float(rhs.const()))), width, "a half-turn" if limit == "pi" else "the identity", k_ or 0, p_, bound)
                    chk.record("BAND.gate", site, "tolerance gate captures only angles outside the stated domain", verdict="VIOLATION", detail=why)
                    chk.finding("BAND.gate", ORI, name, "%s arm: isclose gate closing at %s" % (arm, "pi" if limit == "pi" else "0"), why, line=f.node.lineno)
                else:
                    chk.record("BAND.gate", site, "gate captures angles within %.3e rad of %s only (bound %.1e)" % (width, "pi" if limit == "pi" else "0", bound))
            out[(name, arm)] = bands
    return out


def sarabandi(chk, prog, combos):
    f = prog.func(ORI + "::sarabandi")
    chk.touch(f)
    q = unit_syms("sq")
    R = E_ref(q)
    P.declare_positive(1 - q[0] * q[0])        # not the identity: x^2+y^2+z^2 > 0
    kw = dict(module=ORI, function="sarabandi", line=f.node.lineno)
    for combo in combos:
        def law(combo=combo):
            seq = list(combo)

            def oracle(c, it):
                if c.op == ">":
                    return seq.pop(0) if seq else None
                return None
            out = Interp(prog, oracle=oracle).run(f, [R.copy()])
            return inverts(out, q, "sarabandi%s" % (combo,))
        chk.ob("INVERT", f.ref + "::arms %s" % "".join("T" if b else "F" for b in combo), "E(sarabandi(E(q))) == E(q) on threshold arms %s" % (combo,), law,
               construct="inversion arms %s" % "".join("T" if b else "F" for b in combo), **kw)


def sarabandi_arms(chk, prog):
    """SARABANDI.arm: the method has two exact expressions for each |q_i|: 0.5 sqrt(1 + d_i), and 0.5 sqrt(nom_i / (3 - d_i)), which is 0/0 where d_i = 3 (the
    identity for q_w) and ill-conditioned near it.  The threshold test `d_i > eta` exists to keep the quotient away from that point: every division by `3 - d`
    must sit on the side where `d > eta` is FALSE (else-branch of the `if`, third argument of an `np.where`)."""
    f = prog.func(ORI + "::sarabandi")

    def three_minus(e):
        return isinstance(e, ast.BinOp) and isinstance(e.op, ast.Sub) and isinstance(e.left, ast.Constant) and e.left.value in (3, 3.0)
    # names bound to a `3 - d` expression
    denoms = {s.targets[0].id for s in ast.walk(f.node) if isinstance(s, ast.Assign) and len(s.targets) == 1 and isinstance(s.targets[0], ast.Name) and three_minus(s.value)}

    def is_div_by_denom(x):
        return isinstance(x, ast.BinOp) and isinstance(x.op, ast.Div) and (three_minus(x.right) or (isinstance(x.right, ast.Name) and x.right.id in denoms))
    parents = {}
    for p_ in ast.walk(f.node):
        for ch in ast.iter_child_nodes(p_):
            parents[id(ch)] = p_
    n = 0
    for x in ast.walk(f.node):
        if not is_div_by_denom(x):
            continue
        n += 1
        side, node, cond = None, x, None
        while id(node) in parents and side is None:
            par = parents[id(node)]
            if isinstance(par, ast.If) and isinstance(par.test, ast.Compare) and isinstance(par.test.ops[0], (ast.Gt, ast.GtE)):
                side, cond = ("selected" if any(node is b or any(node is y for y in ast.walk(b)) for b in par.body) else "rejected"), par.test
            elif isinstance(par, ast.IfExp) and isinstance(par.test, ast.Compare) and isinstance(par.test.ops[0], (ast.Gt, ast.GtE)) and node is not par.test:
                side, cond = ("selected" if node is par.body else "rejected"), par.test
            elif isinstance(par, ast.Call) and ast.unparse(par.func).split(".")[-1] == "where" and len(par.args) == 3 and isinstance(par.args[0], ast.Compare) \
                    and isinstance(par.args[0].ops[0], (ast.Gt, ast.GtE)) and node is not par.args[0]:
                side, cond = ("selected" if node is par.args[1] else "rejected"), par.args[0]
            node = par
        site = "%s::%s" % (f.ref, ast.unparse(x)[:50])
        if side is None:
            chk.error("SARABANDI.arm: the division `%s` is not under a recognisable `d > eta` selection (cannot decide)" % ast.unparse(x)[:50])
        elif side == "rejected":
            chk.record("SARABANDI.arm", site, "the quotient form is used only where `%s` is false (away from d = 3)" % ast.unparse(cond))
        else:
            why = ("`%s` is evaluated on the side where `%s` holds: d reaches 3 there (the identity, and every rotation whose axis has a zero component for the vector parts), "
                   "where the quotient is 0/0 = NaN, and it is ill-conditioned all around that point; the well-conditioned form 0.5 sqrt(1 + d) belongs on this side"
                   % (ast.unparse(x)[:50], ast.unparse(cond)))
            chk.record("SARABANDI.arm", site, "the quotient form is used only below the threshold", verdict="VIOLATION", detail=why)
            chk.finding("SARABANDI.arm", ORI, "sarabandi", "quotient form selected above the threshold: %s" % ast.unparse(x)[:50], why, line=x.lineno)
    if n < 1:
        chk.error("SARABANDI.arm: no division by (3 - d) found in sarabandi (4 confirmed by hand; a vectorised copy has one)")


def itzhack(chk, prog):
    f = prog.func(ORI + "::itzhack")
    chk.touch(f)
    q = unit_syms("sq")
    R = E_ref(q)
    kw = dict(module=ORI, function="itzhack", line=f.node.lineno)
    for version in (1, 2, 3):
        def law(version=version):
            def grab(it, a, k):
                raise Stop(to_obj(a[0]))

            def oracle(c, it):
                if c.op in ("isclose", "allclose"):
                    return True       # the orthogonality pre-check passes for a rotation matrix
                return None
            it = Interp(prog, oracle=oracle, intercepts={"np.linalg.eig": grab, "np.linalg.eigh": grab})
            try:
                it.run(f, [R.copy()], {"version": version})
                return (None, "no eigen-decomposition reached")
            except Stop as s:
                K = s.value
            # the code turns an eigenvector v into q by  np.roll(v, 1); q[0] *= -1   ==> v = (x, y, z, -w)
            u = np.array([q[1], q[2], q[3], -q[0]], dtype=object)
            return all_of(eq(K, K.T, "K symmetric"), eq(K @ u, u, "K u"))
        chk.ob("INVERT", f.ref + "::version %d" % version, "K(E(q)) u == u for u = (x, y, z, -w): the eigenvector of eigenvalue 1 is the quaternion (version %d)" % version, law,
               construct="eigen-identity version %d" % version, **kw)
    # the post-processing really is roll + sign flip
    # (interpreted: the eigen-solver is replaced by one that returns the eigenvalues (1, 0.2, -0.3, -0.9) and a matrix whose first column is a symbolic vector v;
    #  whatever way the code selects and rearranges the eigenvector, the result must be (-v3, v0, v1, v2)/|v|)
    for version in (1, 2, 3):
        def post(version=version):
            v = sym_vec("ev", 4)
            vecs = np.empty((4, 4), dtype=object)
            vecs[:, 0] = v
            for j in range(1, 4):
                vecs[:, j] = [P.sym("ew%d%d" % (j, i)) for i in range(4)]
            vals = np.array([P.ONE, P.const(P.Fraction(1, 5)), P.const(P.Fraction(-3, 10)), P.const(P.Fraction(-9, 10))], dtype=object)
            it = Interp(prog, oracle=lambda c, it_: True if (c.op in ("isclose", "allclose") and it_.func_stack and it_.func_stack[-1].name == "itzhack" and not _mentions(c, "ev", "ew")
                                                              and _is_rot_gate(c)) else None,
                        intercepts={"np.linalg.eig": lambda it_, a, k: (vals.copy(), vecs.copy()), "np.linalg.eigh": lambda it_, a, k: (vals.copy(), vecs.copy())})
            out = to_obj(it.run(f, [R.copy()], {"version": version}))
            n2 = sum((x * x for x in v), P.ZERO)
            want = np.array([-v[3], v[0], v[1], v[2]], dtype=object)
            o2 = sum((x * x for x in out), P.ZERO)
            return all_of(eq(o2, P.ONE, "unit norm of the result"), *[eq(out[i] * out[i] * n2, want[i] * want[i], "component %d squared" % i) for i in range(4)],
                          *[eq(out[0] * out[i] * n2, want[0] * want[i], "sign of component %d relative to the scalar part" % i) for i in range(1, 4)])
        chk.ob("INVERT.post", f.ref + "::version %d" % version, "the eigenvector v of the largest / unit eigenvalue is returned as (-v3, v0, v1, v2)/|v| (version %d)" % version, post,
               construct="eigenvector -> quaternion, version %d" % version, **kw)


def _mentions(c, *prefixes):
    try:
        names = [P.atom(a).name for a in (c.lhs - c.rhs).atoms()] if isinstance(c.lhs, P.Rat) else []
    except Exception:
        names = []
    return any(n_.startswith(prefixes) for n_ in names)


def _is_rot_gate(c):
    return True


from sa.lints import nan_echo as _nan_echo_stmt


def _nan_echo(f, stmt):
    return _nan_echo_stmt(f, stmt)


def unit_real(chk, prog):
    summ = {}
    table = {ORI + "::shepperd": {}, ORI + "::chiaverini": {}, ORI + "::hughes": {}, ORI + "::sarabandi": {}, ORI + "::itzhack": "NaN input echo (all-NaN array returned under an isnan(input) test)",
             QUAT + "::Quaternion.from_DCM": {}, QUAT + "::QuaternionArray.from_DCM": {}, DCM + "::DCM.to_quaternion": {}}
    for ref, exempt in table.items():
        f = prog.func(ref)
        chk.touch(f)
        fa = Facts(f, prog, unit_summaries=summ).analyse()
        n = 0
        for r in fa.ret_info:
            if r["none"]:
                continue
            n += 1
            site = "%s::%s" % (ref, r["text"])
            if exempt and _nan_echo(f, r["stmt"]):
                chk.record("UNIT-RET.exempt", site, exempt)
                continue
            if r["unit"]:
                chk.record("UNIT-RET", site, "returned quaternion carries UNIT")
            else:
                chk.record("UNIT-RET", site, "returned quaternion carries UNIT", verdict="VIOLATION")
                chk.finding("UNIT-RET", f.module.rel, f.qname, "non-unit return: " + r["text"], "no normalisation reaches `%s`" % r["text"], line=r["line"])
            if r["complex"]:
                chk.record("REAL-RET", site, "returned quaternion is real", verdict="VIOLATION")
                chk.finding("REAL-RET", f.module.rel, f.qname, "complex return: " + r["text"],
                            "an eigenvector of np.linalg.eig reaches the return without .real (complex dtype on every call with NumPy 2)", line=r["line"])
            else:
                chk.record("REAL-RET", site, "returned quaternion is real")
        if n == 0:
            chk.error("UNIT-RET: %s has no value-returning path" % ref)


HALF_TURN_ROUTES = [ORI + "::shepperd", ORI + "::itzhack", QUAT + "::Quaternion.from_DCM", QUAT + "::QuaternionArray.from_DCM", DCM + "::DCM.to_quaternion"]


def no_sign_zero(chk, prog):
    """routes that must be exact at half-turns (scalar part exactly 0) may not scale by np.sign(<component>): sign(0) == 0"""
    for ref in HALF_TURN_ROUTES:
        f = prog.func(ref)
        bad = [n for n in ast.walk(f.node) if isinstance(n, ast.Call) and ast.unparse(n.func) in ("np.sign", "numpy.sign")]
        if bad:
            for n in bad:
                chk.finding("NO-SIGN-ZERO", f.module.rel, f.qname, "np.sign in a half-turn route: %s" % stmt_text(n),
                            "np.sign(x) is 0 for x == 0: at an exact half-turn (scalar part 0) multiplying by it zeroes the quaternion, yet the default and Bar-Itzhack routes must be valid there", line=n.lineno)
        chk.record("NO-SIGN-ZERO", ref, "no multiplication by np.sign(.) on a route that must hold at exact half-turns", verdict="VIOLATION" if bad else "HOLDS")


def band(chk, prog):
    from props.c10 import band_rule
    for name in ("hughes", "chiaverini", "shepperd", "sarabandi"):
        band_rule(chk, prog.func(ORI + "::" + name), "C02", 1e-9, "the closed-form methods must be right for rotation angles arbitrarily close to zero")


def canaries(chk, prog):
    from sa.report import Check

    def permute_u(tree):
        for n in ast.walk(tree):
            if isinstance(n, ast.FunctionDef) and n.name == "shepperd":
                for s in ast.walk(n):
                    if isinstance(s, ast.Assign) and isinstance(s.targets[0], ast.Name) and s.targets[0].id == "u" and isinstance(s.value, ast.Call) \
                            and s.value.args and isinstance(s.value.args[0], (ast.List, ast.Tuple)) and len(s.value.args[0].elts) == 4:
                        e = s.value.args[0].elts
                        e[1], e[2] = e[2], e[1]
                        return True
        return False

    def chia_sign(tree):
        for n in ast.walk(tree):
            if isinstance(n, ast.FunctionDef) and n.name == "chiaverini":
                for s in ast.walk(n):
                    if isinstance(s, ast.BinOp) and isinstance(s.op, ast.Sub) and ast.unparse(s).replace(" ", "") == "dcm[0,2]-dcm[2,0]":
                        s.left, s.right = s.right, s.left
                        return True
        return False
    for name, tr, fn, rule in (("permute the pivot array u in shepperd", permute_u, shepperd, "PIVOT"), ("swap the operands of one sign() in chiaverini", chia_sign, chiaverini_hughes, "INVERT")):
        try:
            p2 = prog.mutated(ORI, tr)
            sub = Check("C02", chk.tier, p2, quiet=True)
            fn(sub, p2)
            chk.canary(name, any(f.rule == rule for f in sub.findings), "%d findings" % len(sub.findings))
        except Exception as e:
            chk.canary(name, False, "crashed: %s: %s" % (type(e).__name__, e))


def run(chk, prog, tier):
    from sa import lints as _lints
    _lints.domain_guard(chk, prog, refs=['ahrs/common/orientation.py::chiaverini'])
    shepperd(chk, prog)
    chiaverini_hughes(chk, prog)
    gate_bands(chk, prog)
    sample_arms(chk, prog, tier=tier)
    # the four threshold tests d? > eta; the fifth comparison (q[0] > 0) is decided generically: q[0] = |w| > 0
    all16 = list(itertools.product((True, False), repeat=4))
    quick = [(True, True, True, True), (False, True, True, True), (True, False, False, False), (False, False, False, False), (False, True, False, True), (True, True, False, False)]
    sarabandi(chk, prog, all16 if tier == "thorough" else quick)
    sarabandi_arms(chk, prog)
    itzhack(chk, prog)
    unit_real(chk, prog)
    from props.c07 import dispatch_rule
    dispatch_rule(chk, prog)
    band(chk, prog)
    no_sign_zero(chk, prog)
    # DCM.to_quaternion converts `self.A`, not `self`: the shadow attribute has to be the memory the instance is made over, or an in-place update of the matrix
    # (R[:] = R @ dR) leaves every method converting the matrix of construction time (C11's SHADOW-INIT, shared; round 8)
    from props.c11 import shadow_init
    _f = prog.func("ahrs/common/dcm.py::DCM.__new__")
    chk.touch(_f)
    shadow_init(chk, _f)
    chk.require_count("SHADOW-INIT", 1)
    chk.require_count("INVERT", 17)
    chk.require_count("PIVOT", 4)
    canaries(chk, prog)
    return __doc__
